package sx

import (
	"math/big"
	"fmt"
	"go/token"
	"go/types"
	"unicode/utf8"

	"gocv/smt"

	"golang.org/x/tools/go/ssa"
)

func (p *Path) exec(fr *Frame, in ssa.Instruction) {
	switch x := in.(type) {
	case *ssa.DebugRef:
	case *ssa.Alloc:
		t := x.Type().Underlying().(*types.Pointer).Elem()
		fr.Locals[x] = Ptr{Obj: p.Alloc(Zero(t))}
	case *ssa.BinOp:
		fr.Locals[x] = p.binop(in, x.Op, p.get(fr, x.X), p.get(fr, x.Y), x.X.Type(), x.Y.Type())
	case *ssa.UnOp:
		fr.Locals[x] = p.unop(fr, x)
	case *ssa.Call:
		fr.Locals[x] = p.doCall(fr, x, x.Common())
	case *ssa.Defer:
		c := x.Common()
		// evaluate now, run at return
		fn, args, bind, cl := p.prepareCall(fr, c)
		fr.Defers = append(fr.Defers, func() {
			if cl != nil {
				p.CallClosure(cl, args, x)
			} else {
				p.Call(fn, args, bind, x)
			}
		})
	case *ssa.ChangeInterface:
		fr.Locals[x] = p.get(fr, x.X)
	case *ssa.ChangeType:
		fr.Locals[x] = p.get(fr, x.X)
	case *ssa.Convert:
		fr.Locals[x] = p.convert(p.get(fr, x.X), x.X.Type(), x.Type())
	case *ssa.MultiConvert:
		fr.Locals[x] = p.convert(p.get(fr, x.X), x.X.Type(), x.Type())
	case *ssa.Extract:
		fr.Locals[x] = p.get(fr, x.Tuple).(Tuple)[x.Index]
	case *ssa.Field:
		fr.Locals[x] = p.get(fr, x.X).(*Struct).F[x.Field]
	case *ssa.FieldAddr:
		ptr := p.get(fr, x.X).(Ptr)
		if ptr.Obj == 0 {
			p.safety(in, "nil", smt.False, "field of nil pointer")
			p.Stop("panic")
		}
		fr.Locals[x] = Ptr{Obj: ptr.Obj, Path: appendPath(ptr.Path, PathElem{Field: x.Field})}
	case *ssa.Index:
		base := p.get(fr, x.X)
		idx := p.intTo64(p.get(fr, x.Index), x.Index.Type())
		switch a := base.(type) {
		case *Arr:
			p.safety(in, "index", smt.BVUlt(idx, i64(int64(len(a.Elems)))), "array index")
			fr.Locals[x] = p.arrGet(a, idx, p.posOf(in))
		case Str:
			fr.Locals[x] = p.strIndex(in, a, idx)
		default:
			panic(unsupported(fmt.Sprintf("Index on %T", base)))
		}
	case *ssa.IndexAddr:
		base := p.get(fr, x.X)
		idx := p.intTo64(p.get(fr, x.Index), x.Index.Type())
		switch a := base.(type) {
		case Slice:
			p.safety(in, "index", smt.BVUlt(idx, a.Len), "slice index")
			if a.Obj == 0 {
				p.Stop("infeasible")
			}
			fr.Locals[x] = Ptr{Obj: a.Obj, Path: []PathElem{{Idx: smt.BVAdd(a.Off, idx)}}}
		case Ptr: // *[N]T
			if a.Obj == 0 {
				p.safety(in, "nil", smt.False, "index of nil array pointer")
				p.Stop("panic")
			}
			n := x.X.Type().Underlying().(*types.Pointer).Elem().Underlying().(*types.Array).Len()
			p.safety(in, "index", smt.BVUlt(idx, i64(n)), "array index")
			fr.Locals[x] = Ptr{Obj: a.Obj, Path: appendPath(a.Path, PathElem{Idx: idx})}
		default:
			panic(unsupported(fmt.Sprintf("IndexAddr on %T", base)))
		}
	case *ssa.Lookup:
		fr.Locals[x] = p.lookup(fr, x)
	case *ssa.MakeClosure:
		fn := x.Fn.(*ssa.Function)
		bind := make([]Val, len(x.Bindings))
		for i, b := range x.Bindings {
			bind[i] = p.get(fr, b)
		}
		fr.Locals[x] = &Closure{Fn: fn, Bind: bind}
	case *ssa.MakeInterface:
		fr.Locals[x] = Iface{T: x.X.Type(), V: p.get(fr, x.X)}
	case *ssa.MakeMap:
		fr.Locals[x] = MapRef{Obj: p.Alloc(&MapVal{})}
	case *ssa.MakeSlice:
		ln := p.intTo64(p.get(fr, x.Len), x.Len.Type())
		cp := p.intTo64(p.get(fr, x.Cap), x.Cap.Type())
		et := x.Type().Underlying().(*types.Slice).Elem()
		fr.Locals[x] = p.makeSlice(in, et, ln, cp)
	case *ssa.MapUpdate:
		p.mapUpdate(in, p.get(fr, x.Map).(MapRef), p.get(fr, x.Key), p.get(fr, x.Value))
	case *ssa.Range:
		fr.Locals[x] = p.mkRange(fr, x)
	case *ssa.Next:
		fr.Locals[x] = p.next(fr, x)
	case *ssa.Slice:
		fr.Locals[x] = p.sliceOp(fr, x)
	case *ssa.Store:
		ptr := p.get(fr, x.Addr).(Ptr)
		if ptr.Obj == 0 {
			p.safety(in, "nil", smt.False, "store through nil pointer")
			p.Stop("panic")
		}
		p.StoreTo(ptr, p.get(fr, x.Val), p.posOf(in))
	case *ssa.TypeAssert:
		fr.Locals[x] = p.typeAssert(fr, x)
	case *ssa.SliceToArrayPointer:
		panic(unsupported("SliceToArrayPointer"))
	default:
		panic(unsupported(fmt.Sprintf("instruction %T", in)))
	}
}

func appendPath(p []PathElem, e PathElem) []PathElem {
	r := make([]PathElem, len(p)+1)
	copy(r, p)
	r[len(p)] = e
	return r
}

// intTo64 converts an integer value of type t to a 64-bit index term
// (sign-extended for signed types).
func (p *Path) intTo64(v Val, t types.Type) *smt.Term {
	x := term(v)
	w, sg, ok := isInt(t)
	if !ok {
		panic(unsupported("index of type " + t.String()))
	}
	if w == 64 {
		return x
	}
	if sg {
		return smt.SignExt(x, 64-w)
	}
	return smt.ZeroExt(x, 64-w)
}

func (p *Path) unop(fr *Frame, x *ssa.UnOp) Val {
	v := p.get(fr, x.X)
	switch x.Op {
	case token.MUL:
		ptr := v.(Ptr)
		if ptr.Obj == 0 {
			p.safety(x, "nil", smt.False, "nil pointer dereference")
			p.Stop("panic")
		}
		return p.Load(ptr, p.posOf(x))
	case token.NOT:
		return smt.Not(term(v))
	case token.SUB:
		if f, ok := v.(Float); ok {
			return Float{-f.F}
		}
		return smt.BVNeg(term(v))
	case token.XOR:
		return smt.BVNot(term(v))
	}
	panic(unsupported("unop " + x.Op.String()))
}

func (p *Path) binop(in ssa.Instruction, op token.Token, a, b Val, ta, tb types.Type) Val {
	switch x := a.(type) {
	case *smt.Term:
		y, ok := b.(*smt.Term)
		if !ok {
			panic(unsupported(fmt.Sprintf("binop %s on term and %T", op, b)))
		}
		if x.S.K == smt.KBool {
			switch op {
			case token.EQL:
				return smt.Eq(x, y)
			case token.NEQ:
				return smt.Not(smt.Eq(x, y))
			case token.AND, token.LAND:
				return smt.And(x, y)
			case token.OR, token.LOR:
				return smt.Or(x, y)
			}
			panic(unsupported("bool binop " + op.String()))
		}
		w, sg, _ := isInt(ta)
		switch op {
		case token.ADD:
			return smt.BVAdd(x, y)
		case token.SUB:
			return smt.BVSub(x, y)
		case token.MUL:
			return smt.BVMul(x, y)
		case token.QUO, token.REM:
			p.safety(in, "divzero", smt.Not(smt.Eq(y, smt.BVU(0, w))), "integer division by zero")
			if sg {
				if op == token.QUO {
					return smt.BVSDiv(x, y)
				}
				return smt.BVSRem(x, y)
			}
			if op == token.QUO {
				return smt.BVUDiv(x, y)
			}
			return smt.BVURem(x, y)
		case token.AND:
			return smt.BVAnd(x, y)
		case token.OR:
			return smt.BVOr(x, y)
		case token.XOR:
			return smt.BVXor(x, y)
		case token.AND_NOT:
			return smt.BVAnd(x, smt.BVNot(y))
		case token.SHL, token.SHR:
			wy, sgy, _ := isInt(tb)
			if sgy {
				p.safety(in, "shift", smt.BVSle(smt.BVU(0, wy), y), "negative shift count")
			}
			// saturate the amount at w, then bring it to x's width
			var amt *smt.Term
			if wy > w {
				big := smt.BVUle(smt.BVU(uint64(w), wy), y)
				amt = smt.Ite(big, smt.BVU(uint64(w), w), smt.Extract(y, w-1, 0))
			} else {
				amt = smt.ZeroExt(y, w-wy)
			}
			if op == token.SHL {
				return smt.BVShl(x, amt)
			}
			if sg {
				return smt.BVAshr(x, amt)
			}
			return smt.BVLshr(x, amt)
		case token.EQL:
			return smt.Eq(x, y)
		case token.NEQ:
			return smt.Not(smt.Eq(x, y))
		case token.LSS:
			if sg {
				return smt.BVSlt(x, y)
			}
			return smt.BVUlt(x, y)
		case token.LEQ:
			if sg {
				return smt.BVSle(x, y)
			}
			return smt.BVUle(x, y)
		case token.GTR:
			if sg {
				return smt.BVSlt(y, x)
			}
			return smt.BVUlt(y, x)
		case token.GEQ:
			if sg {
				return smt.BVSle(y, x)
			}
			return smt.BVUle(y, x)
		}
	case Opaque:
		// int-to-float conversion of a symbolic integer divided by a float
		// constant: kept symbolic until math.Floor and the conversion back
		if x.Kind == "int2float" && op == token.QUO {
			if y, ok := b.(Float); ok && y.F > 1 {
				return Opaque{Kind: "fquot", V: FQuot{X: x.V.(*smt.Term), D: y.F}}
			}
		}
	case Float:
		y := b.(Float)
		switch op {
		case token.ADD:
			return Float{x.F + y.F}
		case token.SUB:
			return Float{x.F - y.F}
		case token.MUL:
			return Float{x.F * y.F}
		case token.QUO:
			return Float{x.F / y.F}
		case token.LSS:
			return smt.BoolC(x.F < y.F)
		case token.LEQ:
			return smt.BoolC(x.F <= y.F)
		case token.GTR:
			return smt.BoolC(x.F > y.F)
		case token.GEQ:
			return smt.BoolC(x.F >= y.F)
		case token.EQL:
			return smt.BoolC(x.F == y.F)
		case token.NEQ:
			return smt.BoolC(x.F != y.F)
		}
	case Str:
		y := b.(Str)
		switch op {
		case token.ADD:
			return p.strConcat(x, y)
		case token.EQL:
			return p.StrEq(x, y)
		case token.NEQ:
			return smt.Not(p.StrEq(x, y))
		case token.LSS, token.LEQ, token.GTR, token.GEQ:
			if x.Concrete() && y.Concrete() {
				switch op {
				case token.LSS:
					return smt.BoolC(x.S < y.S)
				case token.LEQ:
					return smt.BoolC(x.S <= y.S)
				case token.GTR:
					return smt.BoolC(x.S > y.S)
				default:
					return smt.BoolC(x.S >= y.S)
				}
			}
		}
	default:
		switch op {
		case token.EQL:
			return p.EqVal(a, b)
		case token.NEQ:
			return smt.Not(p.EqVal(a, b))
		}
	}
	panic(unsupported(fmt.Sprintf("binop %s on %T", op, a)))
}

// EqVal is Go's == on comparable values.
func (p *Path) EqVal(a, b Val) *smt.Term {
	switch x := a.(type) {
	case *smt.Term:
		return smt.Eq(x, b.(*smt.Term))
	case Str:
		return p.StrEq(x, b.(Str))
	case Float:
		return smt.BoolC(x.F == b.(Float).F)
	case Ptr:
		y, ok := b.(Ptr)
		if !ok {
			panic(unsupported(fmt.Sprintf("compare Ptr with %T", b)))
		}
		if x.Obj != y.Obj || len(x.Path) != len(y.Path) {
			return smt.False
		}
		c := smt.True
		for i := range x.Path {
			if (x.Path[i].Idx == nil) != (y.Path[i].Idx == nil) {
				return smt.False
			}
			if x.Path[i].Idx == nil {
				if x.Path[i].Field != y.Path[i].Field {
					return smt.False
				}
			} else {
				c = smt.And(c, smt.Eq(x.Path[i].Idx, y.Path[i].Idx))
			}
		}
		return c
	case Iface:
		y, ok := b.(Iface)
		if !ok {
			panic(unsupported(fmt.Sprintf("compare Iface with %T", b)))
		}
		if x.T == nil || y.T == nil {
			return smt.BoolC(x.T == nil && y.T == nil)
		}
		if !types.Identical(x.T, y.T) {
			return smt.False
		}
		return p.EqVal(x.V, y.V)
	case *Struct:
		y := b.(*Struct)
		c := smt.True
		for i := range x.F {
			c = smt.And(c, p.EqVal(x.F[i], y.F[i]))
		}
		return c
	case *Arr:
		y := b.(*Arr)
		c := smt.True
		for i := range x.Elems {
			c = smt.And(c, p.EqVal(x.Elems[i], y.Elems[i]))
		}
		return c
	case Slice:
		// only comparison with nil is legal
		y := b.(Slice)
		if y.Obj == 0 && isZero(y.Len) {
			return smt.BoolC(x.Obj == 0)
		}
		if x.Obj == 0 && isZero(x.Len) {
			return smt.BoolC(y.Obj == 0)
		}
	case MapRef:
		y := b.(MapRef)
		return smt.BoolC(x.Obj == y.Obj)
	case *Closure:
		y, _ := b.(*Closure)
		if y == nil {
			return smt.BoolC(x == nil)
		}
		if x == nil {
			return smt.BoolC(y == nil)
		}
	case Opaque:
		y, ok := b.(Opaque)
		if ok {
			return smt.BoolC(x.V == y.V)
		}
	}
	panic(unsupported(fmt.Sprintf("== on %T and %T", a, b)))
}

func isZero(t *smt.Term) bool { return t != nil && t.Op == "bvconst" && t.C.Sign() == 0 }

func (p *Path) convert(v Val, from, to types.Type) Val {
	r := p.convert0(v, from, to)
	// conversions to a type registered for concretisation (e.g. expr.Width,
	// which determines the shape of expression trees) fork over the
	// feasible values of the result
	if n, ok := to.(*types.Named); ok && p.M.Concretize != nil && n.Obj() != nil && n.Obj().Pkg() != nil {
		if lim, want := p.M.Concretize[n.Obj().Pkg().Path()+"."+n.Obj().Name()]; want {
			if t, isT := r.(*smt.Term); isT && !t.IsConst() {
				return p.ConcretizeTerm(t, lim)
			}
		}
	}
	return r
}

func (p *Path) convert0(v Val, from, to types.Type) Val {
	fu, tu := from.Underlying(), to.Underlying()
	if wf, sf, ok := isInt(from); ok {
		if wt, _, ok := isInt(to); ok {
			x := term(v)
			if wt == wf {
				return x
			}
			if wt < wf {
				return smt.Extract(x, wt-1, 0)
			}
			if sf {
				return smt.SignExt(x, wt-wf)
			}
			return smt.ZeroExt(x, wt-wf)
		}
		if isFloat(to) {
			if k, ok := ConstInt(v); ok {
				if sf {
					sh := uint(64 - wf)
					return Float{float64((k << sh) >> sh)}
				}
				return Float{float64(uint64(k))}
			}
			return Opaque{Kind: "int2float", V: v}
		}
		if isString(to) {
			if k, ok := ConstInt(v); ok {
				return Str{S: string(rune(k))}
			}
		}
	}
	if isFloat(from) {
		if f, ok := v.(Float); ok {
			if wt, sg, ok := isInt(to); ok {
				if sg {
					return smt.BVI(int64(f.F), wt)
				}
				return smt.BVU(uint64(f.F), wt)
			}
			if isFloat(to) {
				return f
			}
		}
		if o, ok := v.(Opaque); ok && o.Kind == "floatres" {
			return o.V.(Val)
		}
		if o, ok := v.(Opaque); ok && o.Kind == "ffloor" {
			if wt, _, ok := isInt(to); ok {
				return p.floorQuot(o.V.(FQuot), wt)
			}
		}
	}
	if isString(from) {
		if sl, ok := tu.(*types.Slice); ok {
			s := v.(Str)
			if b, ok := sl.Elem().Underlying().(*types.Basic); ok && b.Kind() == types.Uint8 {
				return p.strToBytes(s)
			}
		}
		if isString(to) {
			return v
		}
	}
	if sl, ok := fu.(*types.Slice); ok && isString(to) {
		if b, ok := sl.Elem().Underlying().(*types.Basic); ok && b.Kind() == types.Uint8 {
			return p.bytesToStr(v.(Slice))
		}
	}
	if _, ok := fu.(*types.Pointer); ok {
		return v
	}
	if b, ok := fu.(*types.Basic); ok && b.Kind() == types.UnsafePointer {
		return v
	}
	panic(unsupported(fmt.Sprintf("convert %s -> %s", from, to)))
}

// ---------- slices ----------

func (p *Path) makeSlice(in ssa.Instruction, et types.Type, ln, cp *smt.Term) Val {
	// runtime.makeslice panics iff len < 0, len > cap or cap*elemsize exceeds
	// the address space (maxAlloc = 2^48 bytes on amd64); an allocation that is
	// merely too large for the machine is resource exhaustion, not modelled
	esz := types.SizesFor("gc", "amd64").Sizeof(et)
	if esz < 1 {
		esz = 1
	}
	lim := i64((1 << 48) / esz)
	if in != nil {
		p.safety(in, "makeslice", smt.And(smt.BVUle(ln, cp), smt.BVUle(cp, lim)), "make: len/cap out of range (negative, or cap*elemsize above 2^48 bytes: runtime panic)")
	}
	n, ok := cp.Uint64()
	if !ok {
		// a small set of feasible sizes is split into cases
		if c, okc := p.TryConcretize(cp, 16); okc {
			cp = c
			if l, okl := p.TryConcretize(ln, 16); okl {
				ln = l
			}
			n, ok = cp.Uint64()
		}
	}
	if !ok {
		return p.makeSymSlice(et, ln, cp)
	}
	if n > 1<<20 {
		panic(unsupported("concrete allocation too large"))
	}
	a := &Arr{Elems: make([]Val, n), ElemT: et}
	z := Zero(et)
	for i := range a.Elems {
		a.Elems[i] = z
	}
	return Slice{Obj: p.Alloc(a), Off: i64(0), Len: ln, Cap: cp}
}

// NewSlice allocates a slice with the given concrete elements.
func (p *Path) NewSlice(et types.Type, elems []Val) Slice {
	a := &Arr{Elems: append([]Val{}, elems...), ElemT: et}
	n := int64(len(elems))
	return Slice{Obj: p.Alloc(a), Off: i64(0), Len: i64(n), Cap: i64(n)}
}

// SliceElems returns the elements of a slice with concrete bounds.
func (p *Path) SliceElems(s Slice) []Val {
	n, ok := s.Len.Uint64()
	if !ok {
		panic(unsupported("slice with symbolic length where a concrete one is needed"))
	}
	if n == 0 {
		return nil
	}
	a := p.Heap[s.Obj].(*Arr)
	off, ok := s.Off.Uint64()
	if !ok {
		// a window of concrete length at a symbolic position
		out := make([]Val, n)
		for i := range out {
			out[i] = p.arrGet(a, smt.BVAdd(s.Off, i64(int64(i))), "slice window")
		}
		return out
	}
	if a.Elems == nil {
		out := make([]Val, n)
		for i := range out {
			out[i] = p.symArrGet(a, i64(int64(off)+int64(i)))
		}
		return out
	}
	return a.Elems[off : off+n]
}

func (p *Path) sliceOp(fr *Frame, x *ssa.Slice) Val {
	base := p.get(fr, x.X)
	opt := func(v ssa.Value) *smt.Term {
		if v == nil {
			return nil
		}
		return p.intTo64(p.get(fr, v), v.Type())
	}
	lo, hi, mx := opt(x.Low), opt(x.High), opt(x.Max)
	if lo == nil {
		lo = i64(0)
	}
	switch b := base.(type) {
	case Str:
		return p.strSlice(x, b, lo, hi)
	case Slice:
		if hi == nil {
			hi = b.Len
		}
		newCap := b.Cap
		if mx != nil {
			p.safety(x, "slice", smt.And(smt.BVUle(lo, hi), smt.BVUle(hi, mx), smt.BVUle(mx, b.Cap)), "slice bounds (3-index)")
			newCap = mx
		} else {
			p.safety(x, "slice", smt.And(smt.BVUle(lo, hi), smt.BVUle(hi, b.Cap)), "slice bounds")
		}
		if b.Obj == 0 {
			return Slice{Off: i64(0), Len: i64(0), Cap: i64(0)}
		}
		return Slice{Obj: b.Obj, Off: smt.BVAdd(b.Off, lo), Len: smt.BVSub(hi, lo), Cap: smt.BVSub(newCap, lo)}
	case Ptr: // *[N]T
		if b.Obj == 0 {
			p.safety(x, "nil", smt.False, "slice of nil array pointer")
			p.Stop("panic")
		}
		if len(b.Path) != 0 {
			panic(unsupported("slicing an array nested in another object"))
		}
		n := i64(x.X.Type().Underlying().(*types.Pointer).Elem().Underlying().(*types.Array).Len())
		if hi == nil {
			hi = n
		}
		newCap := n
		if mx != nil {
			newCap = mx
			p.safety(x, "slice", smt.And(smt.BVUle(lo, hi), smt.BVUle(hi, mx), smt.BVUle(mx, n)), "slice bounds (3-index)")
		} else {
			p.safety(x, "slice", smt.And(smt.BVUle(lo, hi), smt.BVUle(hi, n)), "slice bounds")
		}
		return Slice{Obj: b.Obj, Off: lo, Len: smt.BVSub(hi, lo), Cap: smt.BVSub(newCap, lo)}
	}
	panic(unsupported(fmt.Sprintf("Slice on %T", base)))
}

// Append implements the builtin with Go's in-place/reallocate behaviour.
func (p *Path) Append(s Slice, extra []Val, et types.Type) Slice {
	if len(extra) == 0 {
		return s
	}
	n := int64(len(extra))
	newLen := smt.BVAdd(s.Len, i64(n))
	if s.Obj != 0 {
		a := p.Heap[s.Obj].(*Arr)
		if a.Elems == nil {
			return p.symAppend(s, a, extra, et)
		}
		s.Len = p.ConcretizeTerm(s.Len, 4096)
		s.Off = p.ConcretizeTerm(s.Off, 4096)
		s.Cap = p.ConcretizeTerm(s.Cap, 4096)
		newLen = smt.BVAdd(s.Len, i64(n))
		fits := smt.BVUle(newLen, s.Cap)
		if p.Decide(fits) {
			ln, ok1 := s.Len.Uint64()
			off, ok2 := s.Off.Uint64()
			if !ok1 || !ok2 {
				panic(unsupported("append to concrete array through symbolic bounds"))
			}
			e := append([]Val{}, a.Elems...)
			for i, v := range extra {
				e[off+ln+uint64(i)] = v
			}
			p.Heap[s.Obj] = &Arr{Elems: e, ElemT: a.ElemT}
			return Slice{Obj: s.Obj, Off: s.Off, Len: newLen, Cap: s.Cap}
		}
	}
	// reallocate
	var old []Val
	if s.Obj != 0 {
		old = p.SliceElems(s)
	}
	ne := make([]Val, 0, len(old)+len(extra))
	ne = append(ne, old...)
	ne = append(ne, extra...)
	// Go over-allocates; keep one spare element so that aliasing through
	// spare capacity stays observable.
	ne = append(ne, Zero(et))
	a := &Arr{Elems: ne, ElemT: et}
	return Slice{Obj: p.Alloc(a), Off: i64(0), Len: i64(int64(len(ne) - 1)), Cap: i64(int64(len(ne)))}
}

// ---------- maps ----------

func (p *Path) keyEq(a, b Val) *smt.Term { return p.EqVal(a, b) }

func (p *Path) mapFind(m *MapVal, key Val) (idx int, cond []*smt.Term) {
	cond = make([]*smt.Term, len(m.Keys))
	for i, k := range m.Keys {
		c := p.keyEq(k, key)
		if m.Present != nil && m.Present[i] != nil {
			c = smt.And(c, m.Present[i])
		}
		cond[i] = c
		if c.IsTrue() {
			return i, cond
		}
	}
	return -1, cond
}

func (p *Path) lookup(fr *Frame, x *ssa.Lookup) Val {
	base := p.get(fr, x.X)
	if s, ok := base.(Str); ok {
		idx := p.intTo64(p.get(fr, x.Index), x.Index.Type())
		return p.strIndex(x, s, idx)
	}
	mr := base.(MapRef)
	vt := x.X.Type().Underlying().(*types.Map).Elem()
	key := p.get(fr, x.Index)
	res, ok := p.MapLookup(mr, key, vt)
	if x.CommaOk {
		return Tuple{res, ok}
	}
	return res
}

// MapLookup returns the value and presence; it forks when the key cannot be
// resolved syntactically.
func (p *Path) MapLookup(mr MapRef, key Val, vt types.Type) (Val, *smt.Term) {
	if mr.Obj == 0 {
		return Zero(vt), smt.False
	}
	m := p.Heap[mr.Obj].(*MapVal)
	i, cond := p.mapFind(m, key)
	if i >= 0 {
		return m.Vals[i], smt.True
	}
	for k, c := range cond {
		if c.IsFalse() {
			continue
		}
		if p.Decide(c) {
			return m.Vals[k], smt.True
		}
	}
	return Zero(vt), smt.False
}

func (p *Path) mapUpdate(in ssa.Instruction, mr MapRef, key, val Val) {
	if mr.Obj == 0 {
		p.safety(in, "nilmap", smt.False, "assignment to entry in nil map")
		p.Stop("panic")
	}
	m := p.Heap[mr.Obj].(*MapVal)
	i, cond := p.mapFind(m, key)
	if i < 0 {
		for k, c := range cond {
			if c.IsFalse() {
				continue
			}
			if p.Decide(c) {
				i = k
				break
			}
		}
	}
	nm := &MapVal{Keys: append([]Val{}, m.Keys...), Vals: append([]Val{}, m.Vals...)}
	if i >= 0 {
		nm.Vals[i] = val
	} else {
		nm.Keys = append(nm.Keys, key)
		nm.Vals = append(nm.Vals, val)
	}
	p.Heap[mr.Obj] = nm
}

func (p *Path) MapDelete(mr MapRef, key Val) {
	if mr.Obj == 0 {
		return
	}
	m := p.Heap[mr.Obj].(*MapVal)
	i, cond := p.mapFind(m, key)
	if i < 0 {
		for k, c := range cond {
			if c.IsFalse() {
				continue
			}
			if p.Decide(c) {
				i = k
				break
			}
		}
	}
	if i < 0 {
		return
	}
	nm := &MapVal{}
	for k := range m.Keys {
		if k != i {
			nm.Keys = append(nm.Keys, m.Keys[k])
			nm.Vals = append(nm.Vals, m.Vals[k])
		}
	}
	p.Heap[mr.Obj] = nm
}

// ---------- range ----------

func (p *Path) mkRange(fr *Frame, x *ssa.Range) Val {
	v := p.get(fr, x.X)
	st := &iterState{}
	switch c := v.(type) {
	case Str:
		if c.Bs != nil {
			// bytes of a symbolic string: runes are decoded byte-wise;
			// a byte >= 0x80 (multi-byte encoding) is not modelled
			st.IsS = true
			st.Bs = c.Bs
			break
		}
		if !c.Concrete() {
			panic(unsupported("range over symbolic string"))
		}
		st.IsS = true
		st.Str = c.S
	case MapRef:
		if c.Obj != 0 {
			m := p.Heap[c.Obj].(*MapVal)
			st.Keys = m.Keys
			st.Vals = m.Vals
		}
	default:
		panic(unsupported(fmt.Sprintf("range over %T", v)))
	}
	return Iter{Obj: p.Alloc(st)}
}

func (p *Path) next(fr *Frame, x *ssa.Next) Val {
	it := p.get(fr, x.Iter).(Iter)
	st := p.Heap[it.Obj].(*iterState)
	ns := *st
	var res Tuple
	if st.IsS && st.Bs != nil {
		if st.Pos >= len(st.Bs) {
			return Tuple{smt.False, i64(0), smt.BVI(0, 32)}
		}
		b := st.Bs[st.Pos]
		p.Assume(smt.BVUlt(b, smt.BVU(0x80, 8)))
		p.Ghost["assumed:ascii"] = true
		res = Tuple{smt.True, i64(int64(st.Pos)), smt.ZeroExt(b, 24)}
		ns.Pos++
		p.Heap[it.Obj] = &ns
		return res
	}
	if st.IsS {
		if st.Pos >= len(st.Str) {
			return Tuple{smt.False, i64(0), smt.BVI(0, 32)}
		}
		r, sz := utf8.DecodeRuneInString(st.Str[st.Pos:])
		res = Tuple{smt.True, i64(int64(st.Pos)), smt.BVI(int64(r), 32)}
		ns.Pos += sz
	} else {
		if st.Pos >= len(st.Keys) {
			tt := x.Type().(*types.Tuple)
			z := func(t types.Type) Val {
				if b, ok := t.(*types.Basic); ok && b.Kind() == types.Invalid {
					return nil // component not used by the range statement
				}
				return Zero(t)
			}
			return Tuple{smt.False, z(tt.At(1).Type()), z(tt.At(2).Type())}
		}
		res = Tuple{smt.True, st.Keys[st.Pos], st.Vals[st.Pos]}
		ns.Pos++
	}
	p.Heap[it.Obj] = &ns
	return res
}

// ---------- type assertions ----------

func (p *Path) typeAssert(fr *Frame, x *ssa.TypeAssert) Val {
	v := p.get(fr, x.X).(Iface)
	at := x.AssertedType
	okv := false
	var res Val
	if v.T != nil {
		if it, isI := at.Underlying().(*types.Interface); isI {
			okv = types.Implements(v.T, it)
			res = v
		} else {
			okv = types.Identical(v.T, at)
			res = v.V
		}
	}
	if x.CommaOk {
		if !okv {
			if _, isI := at.Underlying().(*types.Interface); isI {
				return Tuple{Iface{}, smt.False}
			}
			return Tuple{Zero(at), smt.False}
		}
		return Tuple{res, smt.True}
	}
	if !okv {
		dt := "nil"
		if v.T != nil {
			dt = v.T.String()
		}
		p.safety(x, "typeassert", smt.False, "type assertion to "+at.String()+" fails on "+dt)
		p.Stop("panic")
	}
	return res
}

// FQuot is float64(X)/D for a symbolic integer X and a constant D > 1.
type FQuot struct {
	X *smt.Term
	D float64
}

// floorQuot is int(math.Floor(float64(X)/D)) for 0 <= X < 2^31 (assumed
// contract of the floating-point expression: the quotient is computed in
// 80-bit fixed point; exact whenever X/D is not within 2^-40 of an integer,
// which holds for D = math.Phi+1 and every X < 2^31 because D is a quadratic
// irrational). Other X are outside the model.
func (p *Path) floorQuot(q FQuot, wt int) *smt.Term {
	x := q.X
	w := x.S.W
	inRange := smt.And(smt.BVSle(smt.BVU(0, w), x), smt.BVSlt(x, smt.BVU(1<<31, w)))
	if !p.Decide(inRange) {
		panic(unsupported("floor of a float quotient outside 0 <= x < 2^31"))
	}
	// K = floor(2^80 / D)
	k := new(big.Float).SetPrec(200).Quo(new(big.Float).SetPrec(200).SetInt(new(big.Int).Lsh(big.NewInt(1), 80)), new(big.Float).SetPrec(200).SetFloat64(q.D))
	ki, _ := k.Int(nil)
	prod := smt.BVMul(smt.ZeroExt(smt.Extract(x, 30, 0), 129), smt.BVC(ki, 160))
	r := smt.Extract(prod, 159, 80)
	return smt.Resize(r, wt)
}
