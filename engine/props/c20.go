package props

import (
	"fmt"
	"go/ast"
	"go/types"

	"gocv/smt"
	"gocv/spec"
	"gocv/sx"
	"gocv/vc"

	"golang.org/x/tools/go/ssa"
)

// C20: ELF loading over an assumed model of debug/elf: an *elf.File is a
// record of header fields, sections and program headers with arbitrary
// values; Section.Data and io.ReadAll(Prog.Open()) return the section/segment
// bytes (arbitrary) or fail.

type secShape struct{ Size int }
type progShape struct{ Filesz, Read int } // Read <= Filesz bytes come out of the file

type elfLayout struct {
	Secs  []secShape
	Progs []progShape
}

func (l elfLayout) String() string { return fmt.Sprintf("secs%v progs%v", l.Secs, l.Progs) }

func elfLayouts(tier string) []elfLayout {
	ls := []elfLayout{
		{}, {Secs: []secShape{{0}}}, {Secs: []secShape{{2}}}, {Secs: []secShape{{1}, {2}}}, {Secs: []secShape{{2}, {0}, {1}}},
		{Progs: []progShape{{0, 0}}}, {Progs: []progShape{{2, 2}}}, {Progs: []progShape{{2, 1}}}, {Progs: []progShape{{1, 1}, {2, 2}}},
	}
	if tier == "thorough" {
		ls = append(ls, elfLayout{Secs: []secShape{{1}, {1}, {1}}}, elfLayout{Secs: []secShape{{3}, {2}}}, elfLayout{Progs: []progShape{{1, 1}, {0, 0}, {2, 1}}}, elfLayout{Progs: []progShape{{3, 3}, {1, 0}}})
	}
	return ls
}

type elfWorld struct {
	secAddr, secType, secFlags []*smt.Term
	secData                    []sx.Slice
	progType, progVaddr, progMemsz []*smt.Term
	progData                   [][]*smt.Term
	layout                     elfLayout
}

func nestedSet(st *sx.Struct, t types.Type, path []string, v sx.Val) {
	i := fieldIdx(t, path[0])
	if len(path) == 1 {
		st.F[i] = v
		return
	}
	ft := t.Underlying().(*types.Struct).Field(i).Type()
	nestedSet(st.F[i].(*sx.Struct), ft, path[1:], v)
}

func init() {
	// intrinsics of debug/elf and io.ReadAll: they look the prepared data up in
	// the path's ghost state
	sx.ExtraIntrinsic(func(m *sx.Machine) {
		m.Intr["debug/elf.Open"] = func(p *sx.Path, c *ssa.CallCommon, a []sx.Val) sx.Val {
			f, ok := p.Ghost["elf.file"].(sx.Ptr)
			if !ok {
				panic(sx.Unsupported{Msg: "elf.Open without a prepared file"})
			}
			if p.Decide(smt.Var("elf.open.fails", smt.Bool)) {
				p.Ghost["elf.open.failed"] = true
				return sx.Tuple{sx.Ptr{}, p.NewError(sx.Str{S: "open failed / bad ELF"}, sx.Iface{})}
			}
			return sx.Tuple{f, sx.Iface{}}
		}
		m.Intr["(*debug/elf.Section).Data"] = func(p *sx.Path, c *ssa.CallCommon, a []sx.Val) sx.Val {
			obj := a[0].(sx.Ptr).Obj
			d, ok := p.Ghost[fmt.Sprintf("elf.secdata:%d", obj)].(sx.Slice)
			if !ok {
				panic(sx.Unsupported{Msg: "Section.Data of an unprepared section"})
			}
			if p.Decide(smt.Var(fmt.Sprintf("elf.data.fails.%d", obj), smt.Bool)) {
				p.Ghost["elf.data.failed"] = true
				return sx.Tuple{sx.Slice{Off: smt.BVU(0, 64), Len: smt.BVU(0, 64), Cap: smt.BVU(0, 64)}, p.NewError(sx.Str{S: "read error"}, sx.Iface{})}
			}
			return sx.Tuple{d, sx.Iface{}}
		}
		m.Intr["(*debug/elf.Prog).Open"] = func(p *sx.Path, c *ssa.CallCommon, a []sx.Val) sx.Val {
			t, _ := p.Ghost["elf.readerT"].(types.Type)
			return sx.Iface{T: t, V: a[0]}
		}
		m.Intr["io.ReadAll"] = func(p *sx.Path, c *ssa.CallCommon, a []sx.Val) sx.Val {
			r := a[0].(sx.Iface)
			obj := r.V.(sx.Ptr).Obj
			d, ok := p.Ghost[fmt.Sprintf("elf.progdata:%d", obj)].([]*smt.Term)
			if !ok {
				panic(sx.Unsupported{Msg: "io.ReadAll of an unprepared reader"})
			}
			if p.Decide(smt.Var(fmt.Sprintf("elf.read.fails.%d", obj), smt.Bool)) {
				return sx.Tuple{sx.Slice{Off: smt.BVU(0, 64), Len: smt.BVU(0, 64), Cap: smt.BVU(0, 64)}, p.NewError(sx.Str{S: "read error"}, sx.Iface{})}
			}
			els := make([]sx.Val, len(d))
			for i := range d {
				els[i] = d[i]
			}
			if len(els) == 0 {
				return sx.Tuple{p.NewSlice(types.Typ[types.Uint8], nil), sx.Iface{}}
			}
			return sx.Tuple{p.NewSlice(types.Typ[types.Uint8], els), sx.Iface{}}
		}
		m.Intr["(*debug/elf.File).Close"] = func(p *sx.Path, c *ssa.CallCommon, a []sx.Val) sx.Val { return sx.Iface{} }
	})
}

func (c *Ctx) installElfBuiltins(ev *spec.Eval, layouts []elfLayout) {
	B := ev.Builtins
	p := ev.P
	fileT := c.pkgType("debug/elf", "File")
	secT := c.pkgType("debug/elf", "Section")
	progT := c.pkgType("debug/elf", "Prog")
	parserT := c.pkgType("mltwist/internal/elf", "Parser")
	memT := c.pkgType("mltwist/internal/elf", "Memory")
	blkT := c.pkgType("mltwist/internal/elf", "Block")
	p.Ghost["elf.readerT"] = types.NewPointer(c.pkgType("io", "SectionReader"))
	w := &elfWorld{}
	mkFile := func(l elfLayout, typ *smt.Term) sx.Ptr {
		w.layout = l
		fs := sx.Zero(fileT).(*sx.Struct)
		nestedSet(fs, fileT, []string{"FileHeader", "Type"}, typ)
		nestedSet(fs, fileT, []string{"FileHeader", "Entry"}, smt.Var("elf.entry", smt.BV(64)))
		var secs, progs []sx.Val
		for i, sh := range l.Secs {
			ss := sx.Zero(secT).(*sx.Struct)
			ty := smt.Var(fmt.Sprintf("sec%d.type", i), smt.BV(32))
			fl := smt.Var(fmt.Sprintf("sec%d.flags", i), smt.BV(32))
			ad := smt.Var(fmt.Sprintf("sec%d.addr", i), smt.BV(64))
			p.Assume(nowrapTerm(ad, sh.Size))
			nestedSet(ss, secT, []string{"SectionHeader", "Type"}, ty)
			nestedSet(ss, secT, []string{"SectionHeader", "Flags"}, fl)
			nestedSet(ss, secT, []string{"SectionHeader", "Addr"}, ad)
			nestedSet(ss, secT, []string{"SectionHeader", "Size"}, smt.BVU(uint64(sh.Size), 64))
			nestedSet(ss, secT, []string{"SectionHeader", "Name"}, sx.Str{S: fmt.Sprintf(".s%d", i)})
			obj := p.Alloc(ss)
			bs := make([]sx.Val, sh.Size)
			for k := range bs {
				bs[k] = smt.Var(fmt.Sprintf("sec%d.b%d", i, k), smt.BV(8))
			}
			d := p.NewSlice(types.Typ[types.Uint8], bs)
			p.Ghost[fmt.Sprintf("elf.secdata:%d", obj)] = d
			w.secAddr, w.secType, w.secFlags, w.secData = append(w.secAddr, ad), append(w.secType, ty), append(w.secFlags, fl), append(w.secData, d)
			secs = append(secs, sx.Ptr{Obj: obj})
		}
		for i, sh := range l.Progs {
			ps := sx.Zero(progT).(*sx.Struct)
			ty := smt.Var(fmt.Sprintf("prog%d.type", i), smt.BV(64))
			va := smt.Var(fmt.Sprintf("prog%d.vaddr", i), smt.BV(64))
			ms := smt.Var(fmt.Sprintf("prog%d.memsz", i), smt.BV(64))
			nestedSet(ps, progT, []string{"ProgHeader", "Type"}, ty)
			nestedSet(ps, progT, []string{"ProgHeader", "Vaddr"}, va)
			nestedSet(ps, progT, []string{"ProgHeader", "Filesz"}, smt.BVU(uint64(sh.Filesz), 64))
			nestedSet(ps, progT, []string{"ProgHeader", "Memsz"}, ms)
			obj := p.Alloc(ps)
			var d []*smt.Term
			for k := 0; k < sh.Read; k++ {
				d = append(d, smt.Var(fmt.Sprintf("prog%d.b%d", i, k), smt.BV(8)))
			}
			p.Ghost[fmt.Sprintf("elf.progdata:%d", obj)] = d
			w.progType, w.progVaddr, w.progMemsz, w.progData = append(w.progType, ty), append(w.progVaddr, va), append(w.progMemsz, ms), append(w.progData, d)
			progs = append(progs, sx.Ptr{Obj: obj})
		}
		if len(secs) > 0 {
			nestedSet(fs, fileT, []string{"Sections"}, p.NewSlice(types.NewPointer(secT), secs))
		}
		if len(progs) > 0 {
			nestedSet(fs, fileT, []string{"Progs"}, p.NewSlice(types.NewPointer(progT), progs))
		}
		return sx.Ptr{Obj: p.Alloc(fs)}
	}
	// elf_file(t): prepares the file elf.Open will return, with header type t
	B["elf_file"] = func(ev *spec.Eval, a []ast.Expr) spec.TV {
		t := constArg(ev, a[0], "ELF type")
		p.Ghost["elf.file"] = mkFile(elfLayout{}, smt.BVU(uint64(t), 16))
		return spec.TV{V: smt.True}
	}
	B["elf_open_failed"] = func(ev *spec.Eval, a []ast.Expr) spec.TV {
		_, f := p.Ghost["elf.open.failed"]
		return spec.TV{V: smt.BoolC(f)}
	}
	B["parser_holds_file"] = func(ev *spec.Eval, a []ast.Expr) spec.TV {
		r, ok := ev.Eval(a[0]).V.(sx.Ptr)
		if !ok || r.Obj == 0 {
			return spec.TV{V: smt.False}
		}
		f := p.Load(r, "parser").(*sx.Struct).F[fieldIdx(parserT, "f")]
		return spec.TV{V: smt.BoolC(sx.SameVal(f, p.Ghost["elf.file"]))}
	}
	// elf_parser(l): a Parser over a file with the sections / program headers
	// of layout l (all header values arbitrary)
	B["elf_parser"] = func(ev *spec.Eval, a []ast.Expr) spec.TV {
		l := layouts[constArg(ev, a[0], "layout")]
		f := mkFile(l, smt.BVU(2, 16))
		ps := sx.Zero(parserT).(*sx.Struct)
		ps.F[fieldIdx(parserT, "f")] = f
		return spec.TV{V: sx.Ptr{Obj: p.Alloc(ps)}, T: types.NewPointer(parserT)}
	}
	blocksOf := func(v sx.Val) []*sx.Struct {
		mp, ok := v.(sx.Ptr)
		if !ok || mp.Obj == 0 {
			return nil
		}
		sl := p.Load(mp, "memory").(*sx.Struct).F[fieldIdx(memT, "Blocks")].(sx.Slice)
		var out []*sx.Struct
		if n, _ := sl.Len.Uint64(); n > 0 {
			for _, e := range p.SliceElems(sl) {
				out = append(out, e.(*sx.Struct))
			}
		}
		return out
	}
	secIncluded := func(i int) *smt.Term {
		if w.layout.Secs[i].Size == 0 {
			return smt.False
		}
		return smt.And(smt.Eq(w.secType[i], smt.BVU(1, 32)), smt.Not(smt.Eq(w.secAddr[i], smt.BVU(0, 64))),
			smt.Not(smt.Eq(smt.BVAnd(w.secFlags[i], smt.BVU(4, 32)), smt.BVU(0, 32))))
	}
	overlap := func(a1 *smt.Term, n1 *smt.Term, a2 *smt.Term, n2 *smt.Term) *smt.Term {
		return smt.And(smt.BVUlt(a1, smt.BVAdd(a2, n2)), smt.BVUlt(a2, smt.BVAdd(a1, n1)))
	}
	B["sections_overlap"] = func(ev *spec.Eval, a []ast.Expr) spec.TV {
		var cs []*smt.Term
		for i := range w.secAddr {
			for j := i + 1; j < len(w.secAddr); j++ {
				ni, nj := smt.BVU(uint64(w.layout.Secs[i].Size), 64), smt.BVU(uint64(w.layout.Secs[j].Size), 64)
				cs = append(cs, smt.And(secIncluded(i), secIncluded(j), overlap(w.secAddr[i], ni, w.secAddr[j], nj)))
			}
		}
		return spec.TV{V: smt.Or(cs...)}
	}
	// code_image_exact(m): the blocks of m are exactly the included sections
	// (PROGBITS, non-empty, address-bearing, executable), each with its
	// address and its bytes, sorted by address and not overlapping
	B["code_image_exact"] = func(ev *spec.Eval, a []ast.Expr) spec.TV {
		bl := blocksOf(ev.Eval(a[0]).V)
		used := map[int]bool{}
		cond := smt.True
		for j, b := range bl {
			bs := b.F[fieldIdx(blkT, "bytes")].(sx.Slice)
			found := -1
			for i, d := range w.secData {
				if d.Obj == bs.Obj && sx.SameVal(d, bs) {
					found = i
				}
			}
			if found < 0 || used[found] {
				p.Ghost["detail"] = fmt.Sprintf("block %d does not carry the bytes of a section", j)
				return spec.TV{V: smt.False}
			}
			used[found] = true
			cond = smt.And(cond, secIncluded(found), smt.Eq(b.F[fieldIdx(blkT, "begin")].(*smt.Term), w.secAddr[found]))
			if j > 0 {
				pb := bl[j-1]
				pn, _ := pb.F[fieldIdx(blkT, "bytes")].(sx.Slice).Len.Uint64()
				cond = smt.And(cond, smt.BVUle(smt.BVAdd(pb.F[fieldIdx(blkT, "begin")].(*smt.Term), smt.BVU(pn, 64)), b.F[fieldIdx(blkT, "begin")].(*smt.Term)))
			}
		}
		for i := range w.secData {
			if !used[i] {
				cond = smt.And(cond, smt.Not(secIncluded(i)))
			}
		}
		return spec.TV{V: cond}
	}
	progIncluded := func(i int) *smt.Term { return smt.Eq(w.progType[i], smt.BVU(1, 64)) }
	B["segments_overlap"] = func(ev *spec.Eval, a []ast.Expr) spec.TV {
		var cs []*smt.Term
		for i := range w.progVaddr {
			for j := i + 1; j < len(w.progVaddr); j++ {
				cs = append(cs, smt.And(progIncluded(i), progIncluded(j), overlap(w.progVaddr[i], w.progMemsz[i], w.progVaddr[j], w.progMemsz[j])))
			}
		}
		return spec.TV{V: smt.Or(cs...)}
	}
	B["segments_sane"] = func(ev *spec.Eval, a []ast.Expr) spec.TV {
		// no segment wraps around the address space; sizes the runtime can
		// allocate (resource limits are not modelled)
		cond := smt.True
		for i := range w.progVaddr {
			cond = smt.And(cond, smt.BVUle(w.progMemsz[i], smt.BVU(1<<40, 64)), smt.BVUle(w.progVaddr[i], smt.BVU(^uint64(0)-(1<<40), 64)))
		}
		return spec.TV{V: cond}
	}
	// segments_exact(m): the blocks of m are exactly the PT_LOAD segments:
	// address, Memsz bytes, the bytes read from the file followed by zeros;
	// sorted and not overlapping
	B["segments_exact"] = func(ev *spec.Eval, a []ast.Expr) spec.TV {
		bl := blocksOf(ev.Eval(a[0]).V)
		// included segments, in file order (inclusion is decided on this path)
		var inc []int
		for i := range w.progType {
			if p.Decide(progIncluded(i)) {
				inc = append(inc, i)
			}
		}
		if len(bl) != len(inc) {
			p.Ghost["detail"] = fmt.Sprintf("%d blocks for %d loadable segments", len(bl), len(inc))
			return spec.TV{V: smt.False}
		}
		// the blocks' byte arrays were allocated in file order
		type bo struct {
			obj int
			b   *sx.Struct
		}
		var bos []bo
		for _, b := range bl {
			bos = append(bos, bo{b.F[fieldIdx(blkT, "bytes")].(sx.Slice).Obj, b})
		}
		for x := range bos {
			for y := x + 1; y < len(bos); y++ {
				if bos[y].obj < bos[x].obj {
					bos[x], bos[y] = bos[y], bos[x]
				}
			}
		}
		cond := smt.True
		k := smt.Var("seg.k", smt.BV(64)) // arbitrary byte index
		for n, i := range inc {
			b := bos[n].b
			sl := b.F[fieldIdx(blkT, "bytes")].(sx.Slice)
			cond = smt.And(cond, smt.Eq(b.F[fieldIdx(blkT, "begin")].(*smt.Term), w.progVaddr[i]), smt.Eq(sl.Len, w.progMemsz[i]))
			// content at an arbitrary index k < Memsz
			var want *smt.Term = smt.BVU(0, 8)
			for x := len(w.progData[i]) - 1; x >= 0; x-- {
				want = smt.Ite(smt.Eq(k, smt.BVU(uint64(x), 64)), w.progData[i][x], want)
			}
			got := p.SliceAt(sl, k)
			cond = smt.And(cond, smt.Implies(smt.BVUlt(k, w.progMemsz[i]), smt.Eq(got, want)))
		}
		for j := 1; j < len(bl); j++ {
			pb, b := bl[j-1], bl[j]
			cond = smt.And(cond, smt.BVUle(smt.BVAdd(pb.F[fieldIdx(blkT, "begin")].(*smt.Term), pb.F[fieldIdx(blkT, "bytes")].(sx.Slice).Len), b.F[fieldIdx(blkT, "begin")].(*smt.Term)))
		}
		return spec.TV{V: cond}
	}
	// elf_memory(n1, n2, ...): an elf.Memory of blocks with the given lengths
	// at arbitrary sorted, non-overlapping addresses
	B["elf_memory"] = func(ev *spec.Eval, a []ast.Expr) spec.TV {
		var els []sx.Val
		var prevEnd *smt.Term
		var recs []struct {
			begin *smt.Term
			sl    sx.Slice
			n     int
		}
		for i, x := range a {
			n := int(constArg(ev, x, "block length"))
			if n < 0 {
				continue
			}
			begin := smt.Var(fmt.Sprintf("mblk%d.begin", i), smt.BV(64))
			p.Assume(nowrapTerm(begin, n))
			if prevEnd != nil {
				p.Assume(smt.BVUle(prevEnd, begin))
			}
			prevEnd = smt.BVAdd(begin, smt.BVU(uint64(n), 64))
			bs := make([]sx.Val, n)
			for k := range bs {
				bs[k] = smt.Var(fmt.Sprintf("mblk%d.b%d", i, k), smt.BV(8))
			}
			sl := p.NewSlice(types.Typ[types.Uint8], bs)
			st := sx.Zero(blkT).(*sx.Struct)
			st.F[fieldIdx(blkT, "begin")] = begin
			st.F[fieldIdx(blkT, "bytes")] = sl
			els = append(els, st)
			recs = append(recs, struct {
				begin *smt.Term
				sl    sx.Slice
				n     int
			}{begin, sl, n})
		}
		p.Ghost["elf.memblocks"] = recs
		ms := sx.Zero(memT).(*sx.Struct)
		if len(els) > 0 {
			ms.F[fieldIdx(memT, "Blocks")] = p.NewSlice(blkT, els)
		}
		return spec.TV{V: sx.Ptr{Obj: p.Alloc(ms)}, T: types.NewPointer(memT)}
	}
	// elf_block(n): one block of n arbitrary bytes at an arbitrary address
	B["elf_block"] = func(ev *spec.Eval, a []ast.Expr) spec.TV {
		n := int(constArg(ev, a[0], "block length"))
		begin := smt.Var("mblk0.begin", smt.BV(64))
		p.Assume(nowrapTerm(begin, n))
		bs := make([]sx.Val, n)
		for k := range bs {
			bs[k] = smt.Var(fmt.Sprintf("mblk0.b%d", k), smt.BV(8))
		}
		sl := p.NewSlice(types.Typ[types.Uint8], bs)
		st := sx.Zero(blkT).(*sx.Struct)
		st.F[fieldIdx(blkT, "begin")] = begin
		st.F[fieldIdx(blkT, "bytes")] = sl
		p.Ghost["elf.memblocks"] = []struct {
			begin *smt.Term
			sl    sx.Slice
			n     int
		}{{begin, sl, n}}
		return spec.TV{V: st, T: blkT}
	}
	// lookup_exact(r, addr): r is the suffix from addr of the block that
	// contains addr, or nil when no block contains it
	B["lookup_exact"] = func(ev *spec.Eval, a []ast.Expr) spec.TV {
		r := ev.Eval(a[0]).V.(sx.Slice)
		addr := ev.Term(ev.Eval(a[1]))
		recs := p.Ghost["elf.memblocks"].([]struct {
			begin *smt.Term
			sl    sx.Slice
			n     int
		})
		inAny := smt.False
		cond := smt.True
		for _, rc := range recs {
			in := smt.And(smt.BVUle(rc.begin, addr), smt.BVUlt(addr, smt.BVAdd(rc.begin, smt.BVU(uint64(rc.n), 64))))
			inAny = smt.Or(inAny, in)
			// the result is the window [addr-begin : n) of this block's array
			same := smt.BoolC(r.Obj == rc.sl.Obj)
			if r.Obj == rc.sl.Obj {
				same = smt.And(smt.Eq(r.Off, smt.BVSub(addr, rc.begin)), smt.Eq(r.Len, smt.BVSub(smt.BVU(uint64(rc.n), 64), smt.BVSub(addr, rc.begin))))
			}
			cond = smt.And(cond, smt.Implies(in, same))
		}
		cond = smt.And(cond, smt.Implies(smt.Not(inAny), smt.BoolC(r.Obj == 0)))
		return spec.TV{V: cond}
	}
}

func init() {
	register(&Prop{
		ID:        "C20",
		Level:     "other",
		Technique: "contract-based deductive verification of the real ELF front end over an assumed contract of debug/elf (a file is a record of arbitrary header values; section and segment bytes are arbitrary or unreadable); currently bounded in the number and sizes of sections and segments",
		MinObls:   80,
		Claim:     "NewParser rejects exactly unreadable files and the types none, relocatable and core among the five types of the property; MachineCode yields, when it succeeds, exactly the non-empty executable address-bearing PROGBITS sections with their addresses and bytes, sorted and non-overlapping, and fails when two of them overlap; Memory yields exactly the PT_LOAD segments (address, Memsz bytes: the bytes read from the file, then zeros), sorted and non-overlapping, and fails when two overlap; Memory.Address returns the suffix of the containing block or nil. All header values, addresses and bytes are arbitrary; the number and sizes of sections/segments are those of the corpus.",
		Note:      "bounded stand-in: ELF layouts of the corpus (0-3 sections of 0-3 bytes, 0-3 program headers with 0-3 file bytes, short reads included); section/segment types, flags, addresses and in-memory sizes are symbolic. Segment sizes are limited to 2^40 by precondition for the functional obligations; the allocation obligation is checked without that limit.",
		Assumptions: []string{
			"bounded: ELF layouts of the corpus",
			"debug/elf: elf.Open returns an error or a File whose header, section and program header fields are arbitrary; Section.Data returns an error or Size bytes; io.ReadAll(Prog.Open()) returns an error or at most Filesz bytes (assumed contract; byte-level ELF decoding is the standard library's)",
			"sort.Slice is modelled by an insertion sort through the real less closure; sort.Search is the real code, interpreted",
			"sections/segments whose end wraps around 2^64 are excluded",
		},
		Build: func(c *Ctx) []*vc.Unit {
			layouts := elfLayouts(c.Tier)
			var secL, progL []int64
			for i, l := range layouts {
				if len(l.Progs) == 0 {
					secL = append(secL, int64(i))
				}
				if len(l.Secs) == 0 {
					progL = append(progL, int64(i))
				}
			}
			c.Sets["SECLAYOUTS"] = secL
			c.Sets["PROGLAYOUTS"] = progL
			c.Sets["ELFTYPES"] = []int64{0, 1, 2, 3, 4}
			c.Sets["MEMSHAPES"] = []int64{0, 1, 2, 3}
			mk := func(us *UnitSpec) {
				us.Bounded = "ELF layouts of the corpus"
				if l, ok := us.Enum["l"]; ok {
					us.InstanceName = fmt.Sprintf("l=%d %s", l, layouts[l])
				}
				us.MaxPaths = 300000
				us.Inputs = func(p *sx.Path, ev *spec.Eval, fn *ssa.Function) map[string]sx.Val {
					c.installElfBuiltins(ev, layouts)
					return nil
				}
			}
			var units []*vc.Unit
			units = append(units, c.ContractUnits("elf.NewParser", mk)...)
			units = append(units, c.ContractUnits("(*elf.Parser).MachineCode", mk)...)
			units = append(units, c.ContractUnits("(*elf.Parser).Memory", mk)...)
			units = append(units, c.ContractUnits("(*elf.Memory).Address", mk)...)
			units = append(units, c.ContractUnits("(elf.Block).Address", mk)...)
			return units
		},
	})
}
