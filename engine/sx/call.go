package sx

import (
	"fmt"
	"go/types"
	"strconv"
	"strings"

	"gocv/smt"

	"golang.org/x/tools/go/ssa"
)

func (p *Path) prepareCall(fr *Frame, c *ssa.CallCommon) (fn *ssa.Function, args []Val, bind []Val, cl *Closure) {
	if c.IsInvoke() {
		recv := p.get(fr, c.Value).(Iface)
		if recv.T == nil {
			panic(nilInvoke{c.Method.Name()})
		}
		ms := p.M.Prog.MethodSets.MethodSet(recv.T)
		sel := ms.Lookup(c.Method.Pkg(), c.Method.Name())
		if sel == nil {
			panic(unsupported("no method " + c.Method.Name() + " on " + recv.T.String()))
		}
		fn = p.M.Prog.MethodValue(sel)
		if fn == nil {
			panic(unsupported("abstract method " + c.Method.Name() + " on " + recv.T.String()))
		}
		args = append(args, recv.V)
		for _, a := range c.Args {
			args = append(args, p.get(fr, a))
		}
		return fn, args, nil, nil
	}
	for _, a := range c.Args {
		args = append(args, p.get(fr, a))
	}
	switch v := c.Value.(type) {
	case *ssa.Function:
		return v, args, nil, nil
	case *ssa.Builtin:
		return nil, args, nil, &Closure{Name: v.Name()}
	}
	cv := p.get(fr, c.Value)
	clo, ok := cv.(*Closure)
	if !ok {
		panic(unsupported(fmt.Sprintf("call of %T", cv)))
	}
	return nil, args, nil, clo
}

type nilInvoke struct{ method string }

func (p *Path) doCall(fr *Frame, site ssa.Instruction, c *ssa.CallCommon) (res Val) {
	var fn *ssa.Function
	var args, bind []Val
	var cl *Closure
	func() {
		defer func() {
			if r := recover(); r != nil {
				if ni, ok := r.(nilInvoke); ok {
					p.safety(site, "nil", smt.False, "method "+ni.method+" called on nil interface")
					p.Stop("panic")
				}
				panic(r)
			}
		}()
		fn, args, bind, cl = p.prepareCall(fr, c)
	}()
	if cl != nil {
		if cl.Fn == nil && cl.Builtin == nil && cl.Name != "" {
			return p.builtin(fr, site, cl.Name, c, args)
		}
		return p.CallClosure(cl, args, site)
	}
	if fn == nil {
		p.safety(site, "nil", smt.False, "call of nil function")
		p.Stop("panic")
	}
	return p.Call(fn, args, bind, site)
}

func (p *Path) builtin(fr *Frame, site ssa.Instruction, name string, c *ssa.CallCommon, args []Val) Val {
	switch name {
	case "len":
		switch v := args[0].(type) {
		case Slice:
			return v.Len
		case Str:
			return p.StrLen(v)
		case MapRef:
			if v.Obj == 0 {
				return i64(0)
			}
			m := p.Heap[v.Obj].(*MapVal)
			return i64(int64(len(m.Keys)))
		case *Arr:
			return i64(int64(len(v.Elems)))
		case Ptr:
			n := c.Args[0].Type().Underlying().(*types.Pointer).Elem().Underlying().(*types.Array).Len()
			return i64(n)
		}
	case "cap":
		switch v := args[0].(type) {
		case Slice:
			return v.Cap
		case *Arr:
			return i64(int64(len(v.Elems)))
		}
	case "append":
		s := args[0].(Slice)
		et := c.Args[0].Type().Underlying().(*types.Slice).Elem()
		var extra []Val
		switch e := args[1].(type) {
		case Slice:
			if _, ok := e.Len.Uint64(); !ok {
				if a, isArr := p.Heap[e.Obj].(*Arr); isArr && a.Elems != nil {
					e.Len = p.ConcretizeTerm(e.Len, 4096)
				} else {
					return p.symAppendSlice(s, e, et)
				}
			}
			extra = p.SliceElems(e)
		case Str:
			if !e.Concrete() {
				panic(unsupported("append of symbolic string"))
			}
			for i := 0; i < len(e.S); i++ {
				extra = append(extra, smt.BVU(uint64(e.S[i]), 8))
			}
		default:
			panic(unsupported(fmt.Sprintf("append of %T", args[1])))
		}
		return p.Append(s, extra, et)
	case "copy":
		dst := args[0].(Slice)
		// symbolic lengths and positions are split into their feasible values
		dst.Len = p.ConcretizeTerm(dst.Len, 4096)
		if dl, _ := dst.Len.Uint64(); dl == 0 {
			return i64(0)
		}
		if e, ok := args[1].(Slice); ok {
			e.Len = p.ConcretizeTerm(e.Len, 4096)
			args[1] = e
		}
		if a, ok := p.Heap[dst.Obj].(*Arr); ok && a.Elems != nil {
			dst.Off = p.ConcretizeTerm(dst.Off, 4096)
		}
		var src []Val
		var srcLen *smt.Term
		switch e := args[1].(type) {
		case Slice:
			srcLen = e.Len
			if _, ok := e.Len.Uint64(); ok {
				src = p.SliceElems(e)
			} else {
				return p.symCopy(dst, e)
			}
		case Str:
			if !e.Concrete() {
				panic(unsupported("copy from symbolic string"))
			}
			for i := 0; i < len(e.S); i++ {
				src = append(src, smt.BVU(uint64(e.S[i]), 8))
			}
			srcLen = i64(int64(len(e.S)))
		}
		dl, ok := dst.Len.Uint64()
		if !ok {
			if sl, ok := args[1].(Slice); ok {
				return p.symCopy(dst, sl)
			}
			panic(unsupported("copy into slice of symbolic length"))
		}
		n := uint64(len(src))
		if dl < n {
			n = dl
		}
		_ = srcLen
		if n == 0 {
			return i64(0)
		}
		a := p.Heap[dst.Obj].(*Arr)
		if a.Elems == nil {
			na := a
			for i := uint64(0); i < n; i++ {
				na = p.symArrSet(na, smt.BVAdd(dst.Off, i64(int64(i))), src[i])
			}
			p.Heap[dst.Obj] = na
			return i64(int64(n))
		}
		off, ok := dst.Off.Uint64()
		if !ok {
			panic(unsupported("copy into slice with symbolic offset"))
		}
		// src may alias dst: src elements were read before writing
		e := append([]Val{}, a.Elems...)
		for i := uint64(0); i < n; i++ {
			e[off+i] = src[i]
		}
		p.Heap[dst.Obj] = &Arr{Elems: e, ElemT: a.ElemT}
		return i64(int64(n))
	case "delete":
		p.MapDelete(args[0].(MapRef), args[1])
		return nil
	case "Sizeof":
		sz := types.SizesFor("gc", "amd64").Sizeof(c.Args[0].Type())
		return smt.BVU(uint64(sz), 64)
	case "print", "println":
		return nil
	case "min", "max":
		x, y := term(args[0]), term(args[1])
		_, sg, _ := isInt(c.Args[0].Type())
		var lt *smt.Term
		if sg {
			lt = smt.BVSlt(x, y)
		} else {
			lt = smt.BVUlt(x, y)
		}
		if name == "min" {
			return smt.Ite(lt, x, y)
		}
		return smt.Ite(lt, y, x)
	}
	panic(unsupported("builtin " + name))
}

// ---------- strings ----------

func (p *Path) StrLen(s Str) *smt.Term {
	if s.Concrete() {
		return i64(int64(len(s.S)))
	}
	if s.Bs != nil {
		return i64(int64(len(s.Bs)))
	}
	if s.Arr != nil {
		return s.Len
	}
	// formatted: length is a function of the digits; only concrete args
	if c, ok := p.fmtConcrete(s); ok {
		return i64(int64(len(c)))
	}
	// literal characters plus the decimal digits of every argument
	lit := strings.ReplaceAll(strings.ReplaceAll(s.Fmt, "%%", "\x00"), "%d", "")
	if strings.Contains(lit, "%") {
		panic(unsupported("len of formatted symbolic string " + s.Fmt))
	}
	n := i64(int64(len(lit)))
	for _, a := range s.Args {
		n = smt.BVAdd(n, i64(1))
		lim := uint64(10)
		for d := 0; d < 19; d++ {
			if a.S.W < 64 && lim >= 1<<uint(a.S.W) {
				break
			}
			n = smt.BVAdd(n, smt.Ite(smt.BVUle(smt.BVU(lim, a.S.W), a), i64(1), i64(0)))
			lim *= 10
		}
	}
	return n
}

// fmtPrefix is the literal prefix of a formatted string.
func fmtPrefix(s Str) string {
	i := strings.Index(s.Fmt, "%")
	if i < 0 {
		return s.Fmt
	}
	return s.Fmt[:i]
}

func (p *Path) fmtConcrete(s Str) (string, bool) {
	var as []interface{}
	for _, a := range s.Args {
		v, ok := a.Uint64()
		if !ok {
			return "", false
		}
		as = append(as, v)
	}
	return fmt.Sprintf(s.Fmt, as...), true
}

// StrEq compares strings. Formatted strings are compared structurally: the
// format "<lit>%d" is assumed injective in its argument, and formats with
// different literal prefixes are disjoint.
func (p *Path) StrEq(a, b Str) *smt.Term {
	if a.Concrete() && b.Concrete() {
		return smt.BoolC(a.S == b.S)
	}
	if a.Bs != nil || b.Bs != nil {
		x, ok1 := a.byteTerms()
		y, ok2 := b.byteTerms()
		if ok1 && ok2 {
			if len(x) != len(y) {
				return smt.False
			}
			c := smt.True
			for i := range x {
				c = smt.And(c, smt.Eq(x[i], y[i]))
			}
			return c
		}
		// against a formatted or array string: go through the array form
		if !ok1 {
			a, b, y = b, a, x
		}
		// now a has byte terms (y), b is Fmt/Arr
		if b.Arr != nil {
			c := smt.Eq(b.Len, i64(int64(len(y))))
			for i := range y {
				c = smt.And(c, smt.Eq(smt.Select(b.Arr, i64(int64(i))), y[i]))
			}
			return c
		}
		if cs, ok := p.fmtConcrete(b); ok {
			return p.StrEq(a, Str{S: cs})
		}
		panic(unsupported("comparison of a symbolic-byte string with a formatted string"))
	}
	if a.Fmt != "" {
		if c, ok := p.fmtConcrete(a); ok {
			return p.StrEq(Str{S: c}, b)
		}
	}
	if b.Fmt != "" {
		if c, ok := p.fmtConcrete(b); ok {
			return p.StrEq(a, Str{S: c})
		}
	}
	if a.Fmt != "" && b.Fmt != "" {
		if a.Fmt != b.Fmt {
			return smt.False // assumed disjoint (different literal prefix)
		}
		c := smt.True
		for i := range a.Args {
			x, y := a.Args[i], b.Args[i]
			if x.S.W < y.S.W {
				x = smt.ZeroExt(x, y.S.W-x.S.W)
			} else if y.S.W < x.S.W {
				y = smt.ZeroExt(y, x.S.W-y.S.W)
			}
			c = smt.And(c, smt.Eq(x, y))
		}
		return c
	}
	if a.Fmt != "" && b.Concrete() {
		return fmtMatch(a, b.S)
	}
	if b.Fmt != "" && a.Concrete() {
		return fmtMatch(b, a.S)
	}
	if a.Arr != nil || b.Arr != nil {
		return p.symStrEq(a, b)
	}
	panic(unsupported("string comparison"))
}

// fmtMatch: does the concrete string equal "<prefix>%d" % arg ?
func fmtMatch(f Str, s string) *smt.Term {
	if len(f.Args) != 1 || !strings.HasSuffix(f.Fmt, "%d") || strings.Count(f.Fmt, "%") != 1 {
		panic(unsupported("comparison with format " + f.Fmt))
	}
	pre := strings.TrimSuffix(f.Fmt, "%d")
	if !strings.HasPrefix(s, pre) {
		return smt.False
	}
	d := s[len(pre):]
	n, err := strconv.ParseUint(d, 10, 64)
	if err != nil || strconv.FormatUint(n, 10) != d {
		return smt.False
	}
	a := f.Args[0]
	if a.S.W < 64 && n >= 1<<uint(a.S.W) {
		return smt.False
	}
	return smt.Eq(a, smt.BVU(n, a.S.W))
}

func (p *Path) strConcat(a, b Str) Str {
	if a.Concrete() && b.Concrete() {
		return Str{S: a.S + b.S}
	}
	if a.Bs != nil || b.Bs != nil {
		if a.Fmt != "" {
			if cs, ok := p.fmtConcrete(a); ok {
				a = Str{S: cs}
			}
		}
		if b.Fmt != "" {
			if cs, ok := p.fmtConcrete(b); ok {
				b = Str{S: cs}
			}
		}
		x, ok1 := a.byteTerms()
		y, ok2 := b.byteTerms()
		if ok1 && ok2 {
			return MkBytesStr(append(append([]*smt.Term{}, x...), y...))
		}
		panic(unsupported("concatenation of a symbolic-byte string with a formatted/array string"))
	}
	if a.Concrete() && b.Fmt != "" {
		return Str{Fmt: strings.ReplaceAll(a.S, "%", "%%") + b.Fmt, Args: b.Args}
	}
	if a.Fmt != "" && b.Concrete() {
		return Str{Fmt: a.Fmt + strings.ReplaceAll(b.S, "%", "%%"), Args: a.Args}
	}
	if a.Fmt != "" && b.Fmt != "" {
		return Str{Fmt: a.Fmt + b.Fmt, Args: append(append([]*smt.Term{}, a.Args...), b.Args...)}
	}
	return p.symStrConcat(a, b)
}

func (p *Path) strIndex(in ssa.Instruction, s Str, idx *smt.Term) Val {
	ln := p.StrLen(s)
	p.safety(in, "index", smt.BVUlt(idx, ln), "string index")
	if s.Bs != nil {
		if k, ok := idx.Uint64(); ok {
			return s.Bs[k]
		}
		if len(s.Bs) == 0 {
			p.Stop("infeasible")
		}
		r := s.Bs[len(s.Bs)-1]
		for k := len(s.Bs) - 2; k >= 0; k-- {
			r = smt.Ite(smt.Eq(idx, i64(int64(k))), s.Bs[k], r)
		}
		return r
	}
	if s.Concrete() {
		if k, ok := idx.Uint64(); ok {
			return smt.BVU(uint64(s.S[k]), 8)
		}
		if len(s.S) == 0 {
			p.Stop("infeasible")
		}
		r := smt.BVU(uint64(s.S[len(s.S)-1]), 8)
		for k := len(s.S) - 2; k >= 0; k-- {
			r = smt.Ite(smt.Eq(idx, i64(int64(k))), smt.BVU(uint64(s.S[k]), 8), r)
		}
		return r
	}
	if s.Arr != nil {
		return smt.Select(s.Arr, idx)
	}
	if c, ok := p.fmtConcrete(s); ok {
		return p.strIndex(in, Str{S: c}, idx)
	}
	if k, ok := idx.Uint64(); ok {
		if pre := fmtPrefix(s); k < uint64(len(pre)) {
			return smt.BVU(uint64(pre[k]), 8)
		}
	}
	if strings.Count(s.Fmt, "%") == 1 && strings.HasSuffix(s.Fmt, "%d") {
		// a decimal digit of the argument
		b := p.Fresh("digit", smt.BV(8))
		p.Assume(smt.And(smt.BVUle(smt.BVU('0', 8), b), smt.BVUle(b, smt.BVU('9', 8))))
		pre := fmtPrefix(s)
		r := b
		for k := len(pre) - 1; k >= 0; k-- {
			r = smt.Ite(smt.Eq(idx, i64(int64(k))), smt.BVU(uint64(pre[k]), 8), r)
		}
		return r
	}
	panic(unsupported("index of formatted symbolic string"))
}

func (p *Path) strSlice(in ssa.Instruction, s Str, lo, hi *smt.Term) Val {
	ln := p.StrLen(s)
	if hi == nil {
		hi = ln
	}
	p.safety(in, "slice", smt.And(smt.BVUle(lo, hi), smt.BVUle(hi, ln)), "string slice bounds")
	if s.Bs != nil {
		lo = p.ConcretizeTerm(lo, len(s.Bs))
		hi = p.ConcretizeTerm(hi, len(s.Bs))
		l, _ := lo.Uint64()
		h, _ := hi.Uint64()
		return MkBytesStr(s.Bs[l:h])
	}
	if s.Concrete() {
		l, ok1 := lo.Uint64()
		h, ok2 := hi.Uint64()
		if ok1 && ok2 {
			return Str{S: s.S[l:h]}
		}
		// fork over the possible bounds of a concrete string
		for a := 0; a <= len(s.S); a++ {
			for b := a; b <= len(s.S); b++ {
				c := smt.And(smt.Eq(lo, i64(int64(a))), smt.Eq(hi, i64(int64(b))))
				if c.IsFalse() {
					continue
				}
				if p.Decide(c) {
					return Str{S: s.S[a:b]}
				}
			}
		}
		p.Stop("infeasible")
	}
	if s.Arr != nil {
		return p.symStrSlice(s, lo, hi)
	}
	if c, ok := p.fmtConcrete(s); ok {
		return p.strSlice(in, Str{S: c}, lo, hi)
	}
	panic(unsupported("slice of formatted symbolic string"))
}

func (p *Path) strToBytes(s Str) Val {
	if s.Bs != nil {
		elems := make([]Val, len(s.Bs))
		for i := range elems {
			elems[i] = s.Bs[i]
		}
		return p.NewSlice(types.Typ[types.Uint8], elems)
	}
	if s.Concrete() {
		elems := make([]Val, len(s.S))
		for i := range elems {
			elems[i] = smt.BVU(uint64(s.S[i]), 8)
		}
		return p.NewSlice(types.Typ[types.Uint8], elems)
	}
	if s.Arr != nil {
		a := &Arr{Sym: []*smt.Term{s.Arr}, ElemT: types.Typ[types.Uint8]}
		return Slice{Obj: p.Alloc(a), Off: i64(0), Len: s.Len, Cap: s.Len}
	}
	panic(unsupported("[]byte of formatted string"))
}

func (p *Path) bytesToStr(s Slice) Val {
	if n, ok := s.Len.Uint64(); ok {
		el := p.SliceElems(s)
		bs := make([]byte, n)
		allc := true
		for i, e := range el {
			k, ok := ConstInt(e)
			if !ok {
				allc = false
				break
			}
			bs[i] = byte(k)
		}
		if allc {
			return Str{S: string(bs)}
		}
		bts := make([]*smt.Term, len(el))
		for i, e := range el {
			bts[i] = term(e)
		}
		return MkBytesStr(bts)
	}
	a := p.Heap[s.Obj].(*Arr)
	if a.Elems == nil && isZero(s.Off) {
		return Str{Arr: a.Sym[0], Len: s.Len}
	}
	panic(unsupported("string of symbolic-length byte slice with offset"))
}
