package props

import (
	"fmt"
	"go/ast"
	"go/types"

	"gocv/rv"
	"gocv/smt"
	"gocv/spec"
	"gocv/sx"
	"gocv/vc"

	"golang.org/x/tools/go/ssa"
)

func rvConfigEncs(xlen int, m, a bool) []rv.Enc {
	var out []rv.Enc
	for _, e := range rv.Encodings(xlen) {
		if e.Ext == "I" || (e.Ext == "M" && m) || (e.Ext == "A" && a) {
			out = append(out, e)
		}
	}
	return out
}

func encMatch(e rv.Enc, word *smt.Term) *smt.Term {
	return smt.Eq(smt.BVAnd(word, smt.BVU(uint64(e.Mask), 32)), smt.BVU(uint64(e.Match), 32))
}

func (c *Ctx) installDecodeBuiltins(ev *spec.Eval) {
	B := ev.Builtins
	p := ev.P
	// model_valid(ins): what model.Instruction.Validate demands
	B["model_valid"] = func(ev *spec.Eval, a []ast.Expr) spec.TV {
		insT := c.pkgType("mltwist/pkg/model", "Instruction")
		st, ok := ev.Eval(a[0]).V.(*sx.Struct)
		if !ok {
			return spec.TV{V: smt.False}
		}
		cond := smt.And(smt.BVUlt(st.F[fieldIdx(insT, "Type")].(*smt.Term), smt.BVU(8, 64)), smt.Not(smt.Eq(st.F[fieldIdx(insT, "ByteLen")].(*smt.Term), smt.BVU(0, 64))))
		if d, ok := st.F[fieldIdx(insT, "Details")].(sx.Iface); !ok || d.T == nil {
			p.Ghost["detail"] = "platform details not set"
			return spec.TV{V: smt.False}
		}
		efs := st.F[fieldIdx(insT, "Effects")].(sx.Slice)
		if n, _ := efs.Len.Uint64(); n > 0 {
			for _, e := range p.SliceElems(efs) {
				if i, ok := e.(sx.Iface); !ok || i.T == nil {
					p.Ghost["detail"] = "nil effect"
					return spec.TV{V: smt.False}
				}
			}
		}
		return spec.TV{V: cond}
	}
	B["word32"] = func(ev *spec.Eval, a []ast.Expr) spec.TV {
		sl := ev.Eval(a[0]).V.(sx.Slice)
		els := p.SliceElems(sl)
		if len(els) < 4 {
			panic(spec.EvalError{Msg: "word32 of fewer than four bytes"})
		}
		w := els[0].(*smt.Term)
		for i := 1; i < 4; i++ {
			w = smt.Concat(els[i].(*smt.Term), w)
		}
		return raw(w)
	}
	cfg := func(ev *spec.Eval, a []ast.Expr) []rv.Enc {
		return rvConfigEncs(int(constArg(ev, a[0], "xlen")), constArg(ev, a[1], "extm") != 0, constArg(ev, a[2], "exta") != 0)
	}
	// rv_defined(xlen, m, a, word): the specification defines word as an instruction
	B["rv_defined"] = func(ev *spec.Eval, a []ast.Expr) spec.TV {
		word := ev.Term(ev.Eval(a[3]))
		var ms []*smt.Term
		for _, e := range cfg(ev, a) {
			ms = append(ms, encMatch(e, word))
		}
		return spec.TV{V: smt.Or(ms...)}
	}
	// rv_named(xlen, m, a, word, name): name is the mnemonic of word
	B["rv_named"] = func(ev *spec.Eval, a []ast.Expr) spec.TV {
		word := ev.Term(ev.Eval(a[3]))
		name := strArg(ev, a[4])
		var cs []*smt.Term
		for _, e := range cfg(ev, a) {
			if e.Name != name {
				cs = append(cs, smt.Not(encMatch(e, word)))
			}
		}
		return spec.TV{V: smt.And(cs...)}
	}
	// insname(i): mnemonic of a decoded model.Instruction
	B["insname"] = func(ev *spec.Eval, a []ast.Expr) spec.TV {
		ins := ev.Eval(a[0])
		det := ev.Field(ins, "Details").V.(sx.Iface)
		if det.T == nil {
			panic(spec.EvalError{Msg: "decoded instruction has no details"})
		}
		d := spec.TV{V: det.V, T: det.T}
		it := ev.Field(d, "instrType")
		return ev.Field(it, "name")
	}
}

func init() {
	register(&Prop{
		ID:        "C02",
		Level:     "proof",
		Technique: "contract-based deductive verification: postcondition of the real Parser.Parse (through the real opcode matcher) against the RISC-V encoding table, QF_BV validity over the whole 32-bit word per configuration",
		MinObls:   100,
		Note:      "For each of the 8 configurations the parser is built by the real NewParser (executed concretely), then Parse is executed symbolically on n arbitrary bytes (n = 0..6): every path through the real mask-group matcher and its binary searches is explored. The postcondition says: short input is rejected; otherwise Parse succeeds exactly for the words the reference table defines in that configuration, and the mnemonic returned is the reference's. Trailing bytes are symbolic, so independence from them is part of the validity.",
		Assumptions: []string{
			"the encoding table of rv/ref.go (mask/match per mnemonic, written from the ISA manual; fence with fm = rs1 = rd = 0 and any pred/succ; fence.i, ecall, ebreak fully fixed) is the specification",
			"the call of (*opcode.Matcher).Match inside Parse is replaced by Match's contract (internal/opcode/contracts_verif.go; property C19): the unambiguity precondition is checked for each concrete pattern set, the witness pattern is chosen by forking",
			"the matcher is built by the real NewMatcher; sort.Slice is modelled by an insertion sort through the real less closure, sort.Search is the real standard-library code, interpreted",
		},
		Build: func(c *Ctx) []*vc.Unit {
			c.Sets["XLENS"] = []int64{32, 64}
			c.Sets["PARSELENS"] = []int64{0, 1, 3, 4, 5, 6}
			name := "(riscv.Parser).Parse"
			return c.ContractUnits(name, func(us *UnitSpec) {
				xlen, m, a := us.Enum["xlen"], us.Enum["extm"], us.Enum["exta"]
				n := us.Enum["n"]
				if n != 4 && n != 0 && !(m == 1 && a == 1) && !(n == 3 && m == 0 && a == 0) {
					// lengths other than 0 and 4 are checked on the full and the base configuration
					us.Skip = true
					return
				}
				var parser sx.Val
				us.CallHook = matchByContract
				us.Prepare = func(p *sx.Path) {
					pk := c.P.SSA["mltwist/internal/riscv"]
					np := pk.Func("NewParser")
					variant := int64(0)
					if xlen == 64 {
						variant = 1
					}
					extT := pk.Type("Extension").Type()
					var exts []sx.Val
					if m == 1 {
						exts = append(exts, smt.BVU(1, 8))
					}
					if a == 1 {
						exts = append(exts, smt.BVU(2, 8))
					}
					var sl sx.Val = sx.Slice{Off: smt.BVU(0, 64), Len: smt.BVU(0, 64), Cap: smt.BVU(0, 64)}
					if len(exts) > 0 {
						sl = p.NewSlice(extT, exts)
					}
					parser = p.Call(np, []sx.Val{smt.BVU(uint64(variant), 8), sl}, nil, nil)
				}
				us.Inputs = func(p *sx.Path, ev *spec.Eval, fn *ssa.Function) map[string]sx.Val {
					c.installDecodeBuiltins(ev)
					return map[string]sx.Val{"p": parser}
				}
			})
		},
	})
}

var _ = fmt.Sprintf
var _ types.Type
