package main

import (
	"flag"
	"fmt"
	"os"
	"os/exec"
	"strings"
	"strconv"
	"time"

	"gocv/props"
	"gocv/sx"
)

func main() {
	repo := flag.String("repo", "/repo", "repository under verification")
	verif := flag.String("verif", "/verif", "verification directory (evidence, replays, known findings)")
	verbose := flag.Bool("v", false, "verbose")
	flag.Parse()
	args := flag.Args()
	if len(args) < 1 {
		fmt.Println("usage: gocv check <ID> <quick|thorough> | gocv list <prefix>")
		os.Exit(2)
	}
	if args[0] == "manifest" {
		out, _ := exec.Command("git", "-C", *repo, "log", "--format=%h %s", "--grep=^verif:", "-n", "50").Output()
		var commits []string
		for _, l := range strings.Split(strings.TrimSpace(string(out)), "\n") {
			if l != "" {
				commits = append(commits, l)
			}
		}
		if err := props.WriteManifest(*verif, commits); err != nil {
			fmt.Fprintln(os.Stderr, err)
			os.Exit(2)
		}
		return
	}
	t0 := time.Now()
	P, err := sx.Load(*repo)
	if err != nil {
		fmt.Fprintln(os.Stderr, "load error:", err)
		if len(args) >= 2 && args[0] == "check" {
			// a tree that does not load cannot be verified: report it
			fmt.Printf("VIOLATION property=%s replay=/dev/null obligation=\"load\" no-failing-input-found\n", args[1])
			os.Exit(1)
		}
		os.Exit(2)
	}
	P.LoadSecs = time.Since(t0).Seconds()
	switch args[0] {
	case "list":
		pre := ""
		if len(args) > 1 {
			pre = args[1]
		}
		for _, n := range P.FuncsMatching(pre) {
			fmt.Println(n)
		}
		for _, l := range P.InitLog {
			fmt.Println("  init:", l)
		}
	case "check":
		tier := "quick"
		if len(args) > 2 {
			tier = args[2]
		}
		if t := os.Getenv("VERIF_TIER"); t != "" && len(args) <= 2 {
			tier = t
		}
		var seed int64 = 1
		if s := os.Getenv("VERIF_SEED"); s != "" {
			if v, err := strconv.ParseInt(s, 10, 64); err == nil {
				seed = v
			}
		}
		os.Exit(props.Run(P, args[1], tier, seed, *verif, *verbose))
	}
}
