package props

import (
	"os"
	"time"
	"fmt"
	"go/types"
	"strings"

	"gocv/smt"
	"gocv/sx"

	"golang.org/x/tools/go/ssa"
)

// The console-UI harness (C22, C23, C24, C31, C32): code models of small
// RV64 programs built through the real front end, the real modes and UI
// objects on top of them, scripted standard input and a terminal of arbitrary
// height.

type uiProgram struct {
	Name  string
	Words []uint32
}

func uiPrograms() []uiProgram {
	const (
		addi1 = 0x00108093 // addi x1,x1,1
		addi2 = 0x00210113 // addi x2,x2,2
		add3  = 0x002081b3 // add x3,x1,x2
		jal8  = 0x0080006f // jal x0,+8
		jr1   = 0x00008067 // jalr x0,x1,0
		sd21  = 0x0020b023 // sd x2,0(x1)
		ld31  = 0x0000b183 // ld x3,0(x1)
		ecall = 0x00000073
	)
	return []uiProgram{
		{"one-block", []uint32{addi1, addi2, add3}},
		{"blocks-2-1-2", []uint32{addi1, jal8, addi2, add3, jr1}},
		{"blocks-4-1", []uint32{addi1, addi2, add3, jr1, ld31}},
		{"blocks-1-3-1", []uint32{jr1, sd21, ecall, jr1, addi1}},
	}
}

// buildCode builds the code model of a program at 0x1000 through the real
// RISC-V front end (concrete set-up, no obligations).
func (c *Ctx) buildCode(p *sx.Path, words []uint32, parser sx.Val) sx.Ptr {
	memT := c.pkgType("mltwist/internal/elf", "Memory")
	blkT := c.pkgType("mltwist/internal/elf", "Block")
	var bs []sx.Val
	for _, w := range words {
		for i := 0; i < 4; i++ {
			bs = append(bs, smt.BVU(uint64(w>>(8*uint(i)))&0xff, 8))
		}
	}
	blk := sx.Zero(blkT).(*sx.Struct)
	blk.F[fieldIdx(blkT, "begin")] = smt.BVU(0x1000, 64)
	blk.F[fieldIdx(blkT, "bytes")] = p.NewSlice(types.Typ[types.Uint8], bs)
	ms := sx.Zero(memT).(*sx.Struct)
	ms.F[fieldIdx(memT, "Blocks")] = p.NewSlice(blkT, []sx.Val{blk})
	parserT := c.pkgType("mltwist/internal/riscv", "Parser")
	r := p.Call(c.Func("parser.Parse"), []sx.Val{sx.Ptr{Obj: p.Alloc(ms)}, sx.Iface{T: parserT, V: parser}}, nil, nil).(sx.Tuple)
	if er := r[1].(sx.Iface); er.T != nil {
		panic("the front end rejects a program of the UI corpus")
	}
	cr := p.Call(c.Func("deps.NewCode"), []sx.Val{smt.BVU(0x1000, 64), r[0]}, nil, nil).(sx.Tuple)
	if er := cr[1].(sx.Iface); er.T != nil {
		panic("NewCode rejects a program of the UI corpus")
	}
	return cr[0].(sx.Ptr)
}

// rv64Parser builds the tool's RV64IMA parser once, on top of the initial
// heap shared by all units.
func (c *Ctx) rv64Parser() sx.Val {
	t0 := time.Now()
	defer func() {
		if os.Getenv("GOCV_TIMING") != "" {
			fmt.Fprintf(os.Stderr, "rv64Parser: %.2fs\n", time.Since(t0).Seconds())
		}
	}()
	var rvParser sx.Val
	heap, next, perr := c.P.M.Prepare(func(p *sx.Path) {
		extT := c.pkgType("mltwist/internal/riscv", "Extension")
		rvParser = p.Call(c.Func("riscv.NewParser"), []sx.Val{smt.BVU(1, 8), p.NewSlice(extT, []sx.Val{smt.BVU(1, 8), smt.BVU(2, 8)})}, nil, nil)
	})
	if perr != nil {
		panic("riscv.NewParser: " + perr.Error())
	}
	c.P.M.BaseHeap, c.P.M.BaseNext = heap, next
	return rvParser
}

// uiWorld is the concrete part of a UI unit: the code model and the
// disassembler mode and UI built by the real constructors.
type uiWorld struct {
	// prefixPanic: obligations that failed while the concrete prefix of the
	// session was typed (reported by every path of the unit)
	prefixPanic []sx.Obl
	code sx.Ptr
	mode sx.Val // consoleui.Mode holding *disassemble.mode
	ui   sx.Ptr
}

// emulFuncClosure is the EmulFunc main.runIU hands to the disassembler: a new
// state whose program memory is Overlay(Bytes(image), Sparse).
func (c *Ctx) emulFuncClosure(words []uint32) *sx.Closure {
	return &sx.Closure{Name: "emulF", Builtin: func(p *sx.Path, args []sx.Val) sx.Val {
		bbT := c.pkgType("mltwist/internal/state/memory", "ByteBlock")
		blkT := c.pkgType("mltwist/internal/elf", "Block")
		var bs []sx.Val
		for _, w := range words {
			for i := 0; i < 4; i++ {
				bs = append(bs, smt.BVU(uint64(w>>(8*uint(i)))&0xff, 8))
			}
		}
		blk := sx.Zero(blkT).(*sx.Struct)
		blk.F[fieldIdx(blkT, "begin")] = smt.BVU(0x1000, 64)
		blk.F[fieldIdx(blkT, "bytes")] = p.NewSlice(types.Typ[types.Uint8], bs)
		r := p.Call(c.Func("state/memory.NewBytes"), []sx.Val{p.NewSlice(bbT, []sx.Val{sx.Iface{T: blkT, V: blk}})}, nil, nil).(sx.Tuple)
		bytesPT := types.NewPointer(c.pkgType("mltwist/internal/state/memory", "Bytes"))
		sparsePT := types.NewPointer(c.pkgType("mltwist/internal/state/memory", "Sparse"))
		ovPT := types.NewPointer(c.pkgType("mltwist/internal/state/memory", "Overlay"))
		sp := p.Call(c.Func("state/memory.NewSparse"), nil, nil, nil)
		ov := p.Call(c.Func("state/memory.NewOverlay"), []sx.Val{sx.Iface{T: bytesPT, V: r[0]}, sx.Iface{T: sparsePT, V: sp}}, nil, nil)
		stT := c.pkgType("mltwist/internal/state", "State")
		mmT := c.pkgType("mltwist/internal/state/memory", "MemMap")
		mm := p.NewMap(mmT)
		p.MapStore(mm, sx.Str{S: "memory"}, sx.Iface{T: ovPT, V: ov})
		st := sx.Zero(stT).(*sx.Struct)
		st.F[fieldIdx(stT, "Regs")] = p.Call(c.Func("state.NewRegMap"), nil, nil, nil)
		st.F[fieldIdx(stT, "Mems")] = mm
		er := p.Call(c.Func("consoleui/emulate.New"), []sx.Val{args[0], args[1], sx.Ptr{Obj: p.Alloc(st)}}, nil, nil).(sx.Tuple)
		if e := er[1].(sx.Iface); e.T != nil {
			return sx.Tuple{sx.Iface{}, e}
		}
		modeT := types.NewPointer(c.pkgType("mltwist/internal/consoleui/emulate", "mode"))
		return sx.Tuple{sx.Iface{T: modeT, V: er[0]}, sx.Iface{}}
	}}
}

func (c *Ctx) buildUIWorld(p *sx.Path, prog uiProgram, parser sx.Val) *uiWorld {
	t0 := time.Now()
	defer func() {
		if os.Getenv("GOCV_TIMING") != "" {
			fmt.Fprintf(os.Stderr, "buildUIWorld: %.2fs\n", time.Since(t0).Seconds())
		}
	}()
	w := &uiWorld{}
	w.code = c.buildCode(p, prog.Words, parser)
	w.mode = p.Call(c.Func("consoleui/disassemble.New"), []sx.Val{w.code, c.emulFuncClosure(prog.Words)}, nil, nil)
	r := p.Call(c.Func("consoleui.New"), []sx.Val{w.mode}, nil, nil).(sx.Tuple)
	if e := r[1].(sx.Iface); e.T != nil {
		panic("consoleui.New rejects the disassembler mode")
	}
	w.ui = r[0].(sx.Ptr)
	return w
}

// intrinsics of the console: terminal size, regular expressions, strings.Split
// and strings.Repeat over strings with symbolic bytes / counts
func init() {
	sx.ExtraIntrinsic(func(m *sx.Machine) {
		m.Intr["golang.org/x/crypto/ssh/terminal.GetSize"] = func(p *sx.Path, c *ssa.CallCommon, a []sx.Val) sx.Val {
			if p.Decide(smt.Var("term.getsize.fails", smt.Bool)) {
				return sx.Tuple{smt.BVU(0, 64), smt.BVU(0, 64), p.NewError(sx.Str{S: "not a terminal"}, sx.Iface{})}
			}
			h, ok := p.Ghost["term.height"].(*smt.Term)
			if !ok {
				h = smt.Var("term.height", smt.BV(64))
			}
			return sx.Tuple{smt.Var("term.width", smt.BV(64)), h, sx.Iface{}}
		}
		m.Intr["regexp.CompilePOSIX"] = func(p *sx.Path, c *ssa.CallCommon, a []sx.Val) sx.Val {
			n := len(p.Dec)
			if p.Decide(smt.Var(fmt.Sprintf("regexp.bad.%d", n), smt.Bool)) {
				p.Ghost["regexp.failed"] = true
				return sx.Tuple{sx.Ptr{}, p.NewError(sx.Str{S: "bad regular expression"}, sx.Iface{})}
			}
			re := p.Alloc(sx.Opaque{Kind: "regexp", V: a[0]})
			return sx.Tuple{sx.Ptr{Obj: re}, sx.Iface{}}
		}
		m.Intr["(*regexp.Regexp).MatchString"] = func(p *sx.Path, c *ssa.CallCommon, a []sx.Val) sx.Val {
			// an uninterpreted predicate of (pattern, text): one boolean per text
			re := a[0].(sx.Ptr)
			key := fmt.Sprintf("regexp.match:%d:%s", re.Obj, sx.Show(a[1]))
			if v, ok := p.Ghost[key].(*smt.Term); ok {
				return v
			}
			n, _ := p.Ghost["regexp.n"].(int)
			p.Ghost["regexp.n"] = n + 1
			v := smt.Var(fmt.Sprintf("regexp.match.%d", n), smt.Bool)
			p.Ghost[key] = v
			ml, _ := p.Ghost["regexp.log"].([]RegexpMatch)
			p.Ghost["regexp.log"] = append(ml, RegexpMatch{Text: a[1].(sx.Str), Res: v})
			return v
		}
		m.Intr["strings.Split"] = func(p *sx.Path, c *ssa.CallCommon, a []sx.Val) sx.Val {
			s, sep := a[0].(sx.Str), a[1].(sx.Str)
			mk := func(parts []sx.Str) sx.Val {
				els := make([]sx.Val, len(parts))
				for i := range parts {
					els[i] = parts[i]
				}
				return p.NewSlice(types.Typ[types.String], els)
			}
			if s.Concrete() && sep.Concrete() {
				var parts []sx.Str
				for _, x := range strings.Split(s.S, sep.S) {
					parts = append(parts, sx.Str{S: x})
				}
				return mk(parts)
			}
			bs, ok := s.ByteTerms()
			if !ok || !sep.Concrete() || len(sep.S) != 1 {
				panic(sx.Unsupported{Msg: "strings.Split of an unbounded symbolic string or with a separator that is not one character"})
			}
			var parts []sx.Str
			var cur []*smt.Term
			for _, b := range bs {
				if p.Decide(smt.Eq(b, smt.BVU(uint64(sep.S[0]), 8))) {
					parts = append(parts, sx.MkBytesStr(cur))
					cur = nil
				} else {
					cur = append(cur, b)
				}
			}
			parts = append(parts, sx.MkBytesStr(cur))
			return mk(parts)
		}
		m.Intr["strings.Repeat"] = func(p *sx.Path, c *ssa.CallCommon, a []sx.Val) sx.Val {
			s := a[0].(sx.Str)
			cnt := a[1].(*smt.Term)
			if !s.Concrete() {
				panic(sx.Unsupported{Msg: "strings.Repeat of a symbolic string"})
			}
			neg := smt.BVSlt(cnt, smt.BVU(0, 64))
			if p.Decide(neg) {
				p.Assert("strings.Repeat/negative", "panic", smt.False, "", "strings.Repeat: negative count")
				p.Stop("panic")
			}
			cnt = p.ConcretizeTerm(cnt, 400)
			n, _ := cnt.Uint64()
			return sx.Str{S: strings.Repeat(s.S, int(n))}
		}
	})
}

// RegexpMatch records one query of the uninterpreted match predicate.
type RegexpMatch struct {
	Text sx.Str
	Res  *smt.Term
}
