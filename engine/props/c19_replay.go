package props

import (
	"fmt"
	"strings"

	"gocv/vc"
)

// patReplay builds the replay test of a matcher unit: the pattern set and the
// input string of the model are run through the real NewMatcher and Match and
// compared with a brute-force oracle over all byte strings.
func (c *Ctx) patReplay(s patSet, nbs int) func(o *vc.Outcome) string {
	return func(o *vc.Outcome) string {
		var sb strings.Builder
		sb.WriteString(`package opcode

import "testing"

type gocvOp struct {
	name string
	o    Opcode
}

func (g *gocvOp) Opcode() Opcode { return g.o }
func (g *gocvOp) Name() string   { return g.name }

func gocvMatches(o Opcode, s []byte) bool {
	if len(o.Mask) > len(s) || len(o.Bytes) < len(o.Mask) {
		return false
	}
	for k := range o.Mask {
		if (s[k]^o.Bytes[k])&o.Mask[k] != 0 {
			return false
		}
	}
	return true
}

func TestGocvReplay(t *testing.T) {
	ops := []*gocvOp{
`)
		maxLen := 1
		for i, sh := range s {
			bs := make([]string, sh.NB)
			ms := make([]string, sh.NM)
			for k := range bs {
				bs[k] = fmt.Sprintf("0x%02x", modelUint(o, fmt.Sprintf("p%d.b%d", i, k)))
			}
			for k := range ms {
				ms[k] = fmt.Sprintf("0x%02x", modelUint(o, fmt.Sprintf("p%d.m%d", i, k)))
			}
			if sh.NM > maxLen {
				maxLen = sh.NM
			}
			fmt.Fprintf(&sb, "\t\t{\"p%d\", Opcode{Bytes: []byte{%s}, Mask: []byte{%s}}},\n", i, strings.Join(bs, ", "), strings.Join(ms, ", "))
		}
		var in []string
		for k := 0; k < nbs; k++ {
			in = append(in, fmt.Sprintf("0x%02x", modelUint(o, fmt.Sprintf("in.bs.%d", k))))
		}
		fmt.Fprintf(&sb, "\t}\n\tinput := []byte{%s}\n\tmaxLen := %d\n", strings.Join(in, ", "), maxLen)
		sb.WriteString(`	invalid := false
	for _, op := range ops {
		if len(op.o.Bytes) == 0 || len(op.o.Bytes) != len(op.o.Mask) || op.o.Mask[len(op.o.Mask)-1] == 0 {
			invalid = true
		}
	}
	ambiguous := ""
	if !invalid {
		// brute force over every byte string of the longest pattern length
		s := make([]byte, maxLen)
		total := 1
		for i := 0; i < maxLen; i++ {
			total *= 256
		}
		for v := 0; v < total && ambiguous == ""; v++ {
			x := v
			for i := range s {
				s[i] = byte(x)
				x >>= 8
			}
			n := 0
			for _, op := range ops {
				if gocvMatches(op.o, s) {
					n++
				}
			}
			if n > 1 {
				ambiguous = string(append([]byte{}, s...))
			}
		}
	}
	m, err := NewMatcher(ops)
	if (err != nil) != (invalid || ambiguous != "") {
		t.Fatalf("NewMatcher: error = %v, but malformed = %v, byte string matching two patterns = %x", err, invalid, ambiguous)
	}
	if err != nil {
		if m != nil {
			t.Fatalf("NewMatcher returned a matcher together with an error")
		}
		return
	}
	var want *gocvOp
	for _, op := range ops {
		if gocvMatches(op.o, input) {
			want = op
		}
	}
	got, ok := m.Match(input)
	if ok != (want != nil) || (ok && got != want) {
		t.Fatalf("Match(%x) = %v, %v; the matching pattern is %v", input, got, ok, want)
	}
}
`)
		return replayVerdict(c.P.RepoDir, "internal/opcode", sb.String())
	}
}
