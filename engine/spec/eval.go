package spec

import (
	"fmt"
	"go/ast"
	"go/token"
	"go/types"
	"math/big"
	"strconv"
	"strings"
	"sync/atomic"

	"gocv/smt"
	"gocv/sx"
)

// TV is a typed specification value. T == nil for untyped constants (V is
// *big.Int) and for raw terms produced by spec builtins.
type TV struct {
	V sx.Val
	T types.Type
}

// Builtin is a specification function implemented in the engine. It gets the
// unevaluated arguments.
type Builtin func(ev *Eval, args []ast.Expr) TV

// Eval evaluates specification expressions in a symbolic state.
type Eval struct {
	P        *sx.Path
	Prog     *sx.Program
	Vars     map[string]TV
	Old      *Eval // entry state (nil when this is the entry state)
	OldHeap  map[int]sx.Val
	Funcs    map[string]*SpecFunc
	Builtins map[string]Builtin
	Pkg      *types.Package
	depth    int
}

// Errorf aborts the evaluation.
type EvalError struct{ Msg string }

func (e EvalError) Error() string { return "spec: " + e.Msg }

func fail(f string, a ...interface{}) { panic(EvalError{fmt.Sprintf(f, a...)}) }

func (ev *Eval) child() *Eval {
	c := *ev
	c.Vars = map[string]TV{}
	for k, v := range ev.Vars {
		c.Vars[k] = v
	}
	return &c
}

// Bool evaluates a clause to a Bool term.
func (ev *Eval) Bool(x ast.Expr) *smt.Term {
	v := ev.Eval(x)
	t, ok := v.V.(*smt.Term)
	if !ok || t.S.K != smt.KBool {
		fail("expected a boolean, got %s", sx.Show(v.V))
	}
	return t
}

// Goal evaluates a postcondition that is going to be checked for validity:
// universal quantifiers in positive position become fresh free variables
// (which validity quantifies universally), so the solver sees no quantifier.
func (ev *Eval) Goal(x ast.Expr) *smt.Term {
	switch e := x.(type) {
	case *ast.ParenExpr:
		return ev.Goal(e.X)
	case *ast.BinaryExpr:
		if e.Op == token.LAND {
			return smt.And(ev.Goal(e.X), ev.Goal(e.Y))
		}
	case *ast.CallExpr:
		if id, ok := e.Fun.(*ast.Ident); ok {
			switch id.Name {
			case "implies_":
				l := ev.Bool(e.Args[0])
				if l.IsFalse() {
					return smt.True
				}
				return smt.Implies(l, ev.Goal(e.Args[1]))
			case "forall_":
				fl := e.Args[0].(*ast.FuncLit)
				body := fl.Body.List[0].(*ast.ReturnStmt).Results[0]
				c := ev.child()
				expandable := false
				if len(fl.Type.Params.List) == 1 && len(fl.Type.Params.List[0].Names) == 1 {
					if lo, hi, ok := ev.rangeOf(body, fl.Type.Params.List[0].Names[0].Name, true); ok && hi-lo <= 4096 {
						expandable = true
					}
				}
				if expandable {
					return ev.Bool(x)
				}
				for _, f := range fl.Type.Params.List {
					var t types.Type = types.Typ[types.Int]
					if tid, ok := f.Type.(*ast.Ident); ok {
						if bt, ok := basicByName[tid.Name]; ok {
							t = bt
						}
					}
					w, _ := bitsOf(t)
					for _, n := range f.Names {
						c.Vars[n.Name] = TV{ev.P.Fresh("all."+n.Name, smt.BV(w)), t}
					}
				}
				return c.Goal(body)
			}
		}
	}
	return ev.Bool(x)
}

func untyped(v TV) (*big.Int, bool) {
	if v.T != nil {
		return nil, false
	}
	b, ok := v.V.(*big.Int)
	return b, ok
}

// coerce gives untyped constants the sort of the other operand.
func coerce(a, b TV) (TV, TV) {
	if ca, ok := untyped(a); ok {
		if cb, ok := untyped(b); ok {
			_ = cb
			return a, b
		}
		if t, ok := b.V.(*smt.Term); ok && t.S.K == smt.KBV {
			return TV{smt.BVC(ca, t.S.W), b.T}, b
		}
		if t, ok := b.V.(*smt.Term); ok && t.S.K == smt.KInt {
			return TV{smt.IntBig(ca), b.T}, b
		}
	}
	if cb, ok := untyped(b); ok {
		if t, ok := a.V.(*smt.Term); ok && t.S.K == smt.KBV {
			return a, TV{smt.BVC(cb, t.S.W), a.T}
		}
		if t, ok := a.V.(*smt.Term); ok && t.S.K == smt.KInt {
			return a, TV{smt.IntBig(cb), a.T}
		}
	}
	return a, b
}

func isSigned(t types.Type) bool {
	if t == nil {
		return false
	}
	b, ok := t.Underlying().(*types.Basic)
	return ok && b.Info()&types.IsInteger != 0 && b.Info()&types.IsUnsigned == 0
}

// Term forces a scalar term (untyped constants become 64-bit).
func (ev *Eval) Term(v TV) *smt.Term {
	if c, ok := untyped(v); ok {
		return smt.BVC(c, 64)
	}
	t, ok := v.V.(*smt.Term)
	if !ok {
		fail("expected a scalar, got %s", sx.Show(v.V))
	}
	return t
}

func (ev *Eval) Eval(x ast.Expr) TV {
	switch e := x.(type) {
	case *ast.ParenExpr:
		return ev.Eval(e.X)
	case *ast.BasicLit:
		switch e.Kind {
		case token.INT:
			n, ok := new(big.Int).SetString(e.Value, 0)
			if !ok {
				fail("bad integer %s", e.Value)
			}
			return TV{n, nil}
		case token.STRING:
			s, _ := strconv.Unquote(e.Value)
			return TV{sx.Str{S: s}, types.Typ[types.String]}
		case token.CHAR:
			s, _ := strconv.Unquote(e.Value)
			return TV{big.NewInt(int64([]rune(s)[0])), nil}
		}
	case *ast.Ident:
		switch e.Name {
		case "true":
			return TV{smt.True, types.Typ[types.Bool]}
		case "false":
			return TV{smt.False, types.Typ[types.Bool]}
		case "nil":
			return TV{nil, nil}
		}
		if v, ok := ev.Vars[e.Name]; ok {
			return v
		}
		fail("unknown identifier %s", e.Name)
	case *ast.UnaryExpr:
		v := ev.Eval(e.X)
		switch e.Op {
		case token.NOT:
			return TV{smt.Not(ev.Term(v)), v.T}
		case token.SUB:
			if c, ok := untyped(v); ok {
				return TV{new(big.Int).Neg(c), nil}
			}
			return TV{smt.BVNeg(ev.Term(v)), v.T}
		case token.XOR:
			return TV{smt.BVNot(ev.Term(v)), v.T}
		}
	case *ast.BinaryExpr:
		return ev.binary(e)
	case *ast.CallExpr:
		return ev.call(e)
	case *ast.SelectorExpr:
		return ev.selector(e)
	case *ast.IndexExpr:
		return ev.index(e)
	case *ast.SliceExpr:
		return ev.sliceExpr(e)
	case *ast.StarExpr:
		v := ev.Eval(e.X)
		return ev.deref(v)
	}
	fail("unsupported expression form %T", x)
	return TV{}
}

func (ev *Eval) deref(v TV) TV {
	p, ok := v.V.(sx.Ptr)
	if !ok {
		fail("dereference of non-pointer")
	}
	var et types.Type
	if v.T != nil {
		if pt, ok := v.T.Underlying().(*types.Pointer); ok {
			et = pt.Elem()
		}
	}
	if p.Obj == 0 {
		fail("dereference of nil in specification")
	}
	return TV{ev.P.Load(p, "spec"), et}
}

func (ev *Eval) binary(e *ast.BinaryExpr) TV {
	switch e.Op {
	case token.LAND:
		l := ev.Bool(e.X)
		if l.IsFalse() {
			return TV{smt.False, types.Typ[types.Bool]}
		}
		return TV{smt.And(l, ev.guarded(l, e.Y)), types.Typ[types.Bool]}
	case token.LOR:
		l := ev.Bool(e.X)
		if l.IsTrue() {
			return TV{smt.True, types.Typ[types.Bool]}
		}
		return TV{smt.Or(l, ev.guarded(smt.Not(l), e.Y)), types.Typ[types.Bool]}
	}
	a, b := ev.Eval(e.X), ev.Eval(e.Y)
	if e.Op == token.SHL || e.Op == token.SHR {
		// a constant shift amount is never truncated to the operand width
		if cb, ok := untyped(b); ok {
			if xt, ok := a.V.(*smt.Term); ok && xt.S.K == smt.KBV {
				if cb.Sign() < 0 {
					fail("negative shift amount")
				}
				w := xt.S.W
				amt := smt.BVU(uint64(w), w)
				if cb.Cmp(big.NewInt(int64(w))) < 0 {
					amt = smt.BVC(cb, w)
				}
				if w < 8 && cb.Cmp(big.NewInt(int64(w))) >= 0 {
					amt = smt.BVC(big.NewInt(int64(w)), w) // saturate
				}
				switch {
				case e.Op == token.SHL:
					return TV{smt.BVShl(xt, amt), a.T}
				case isSigned(a.T):
					return TV{smt.BVAshr(xt, amt), a.T}
				default:
					return TV{smt.BVLshr(xt, amt), a.T}
				}
			}
		}
	}
	a, b = coerce(a, b)
	if ca, ok := untyped(a); ok {
		cb, ok := untyped(b)
		if !ok {
			fail("cannot type %v", e)
		}
		r := new(big.Int)
		switch e.Op {
		case token.ADD:
			return TV{r.Add(ca, cb), nil}
		case token.SUB:
			return TV{r.Sub(ca, cb), nil}
		case token.MUL:
			return TV{r.Mul(ca, cb), nil}
		case token.QUO:
			return TV{r.Quo(ca, cb), nil}
		case token.REM:
			return TV{r.Rem(ca, cb), nil}
		case token.SHL:
			return TV{r.Lsh(ca, uint(cb.Uint64())), nil}
		case token.SHR:
			return TV{r.Rsh(ca, uint(cb.Uint64())), nil}
		case token.EQL:
			return TV{smt.BoolC(ca.Cmp(cb) == 0), types.Typ[types.Bool]}
		case token.NEQ:
			return TV{smt.BoolC(ca.Cmp(cb) != 0), types.Typ[types.Bool]}
		case token.LSS:
			return TV{smt.BoolC(ca.Cmp(cb) < 0), types.Typ[types.Bool]}
		case token.LEQ:
			return TV{smt.BoolC(ca.Cmp(cb) <= 0), types.Typ[types.Bool]}
		case token.GTR:
			return TV{smt.BoolC(ca.Cmp(cb) > 0), types.Typ[types.Bool]}
		case token.GEQ:
			return TV{smt.BoolC(ca.Cmp(cb) >= 0), types.Typ[types.Bool]}
		}
		fail("untyped op %s", e.Op)
	}
	boolT := types.Typ[types.Bool]
	switch e.Op {
	case token.EQL:
		return TV{ev.eq(a, b), boolT}
	case token.NEQ:
		return TV{smt.Not(ev.eq(a, b)), boolT}
	}
	x, y := ev.Term(a), ev.Term(b)
	if x.S.K == smt.KBV && y.S.K == smt.KBV && x.S.W != y.S.W {
		// shifts may mix widths; everything else must agree
		if e.Op == token.SHL || e.Op == token.SHR {
			y = smt.Resize(y, x.S.W)
		} else {
			fail("width mismatch %d vs %d in %s", x.S.W, y.S.W, exprString(e))
		}
	}
	sg := isSigned(a.T)
	switch e.Op {
	case token.ADD:
		return TV{smt.BVAdd(x, y), a.T}
	case token.SUB:
		return TV{smt.BVSub(x, y), a.T}
	case token.MUL:
		return TV{smt.BVMul(x, y), a.T}
	case token.QUO:
		if sg {
			return TV{smt.BVSDiv(x, y), a.T}
		}
		return TV{smt.BVUDiv(x, y), a.T}
	case token.REM:
		if sg {
			return TV{smt.BVSRem(x, y), a.T}
		}
		return TV{smt.BVURem(x, y), a.T}
	case token.AND:
		if x.S.K == smt.KBool {
			return TV{smt.And(x, y), a.T}
		}
		return TV{smt.BVAnd(x, y), a.T}
	case token.OR:
		if x.S.K == smt.KBool {
			return TV{smt.Or(x, y), a.T}
		}
		return TV{smt.BVOr(x, y), a.T}
	case token.XOR:
		return TV{smt.BVXor(x, y), a.T}
	case token.AND_NOT:
		return TV{smt.BVAnd(x, smt.BVNot(y)), a.T}
	case token.SHL:
		return TV{smt.BVShl(x, y), a.T}
	case token.SHR:
		if sg {
			return TV{smt.BVAshr(x, y), a.T}
		}
		return TV{smt.BVLshr(x, y), a.T}
	case token.LSS:
		if sg {
			return TV{smt.BVSlt(x, y), boolT}
		}
		return TV{smt.BVUlt(x, y), boolT}
	case token.LEQ:
		if sg {
			return TV{smt.BVSle(x, y), boolT}
		}
		return TV{smt.BVUle(x, y), boolT}
	case token.GTR:
		if sg {
			return TV{smt.BVSlt(y, x), boolT}
		}
		return TV{smt.BVUlt(y, x), boolT}
	case token.GEQ:
		if sg {
			return TV{smt.BVSle(y, x), boolT}
		}
		return TV{smt.BVUle(y, x), boolT}
	}
	fail("unsupported operator %s", e.Op)
	return TV{}
}

// guarded evaluates y; when the evaluation itself needs the guard (e.g. an
// index that is only in range under it) errors are turned into "false".
func (ev *Eval) guarded(g *smt.Term, y ast.Expr) *smt.Term {
	return ev.Bool(y)
}

func (ev *Eval) eq(a, b TV) *smt.Term {
	if a.V == nil || b.V == nil {
		// comparison with nil
		o := a
		if a.V == nil {
			o = b
		}
		switch x := o.V.(type) {
		case nil:
			return smt.True
		case sx.Ptr:
			return smt.BoolC(x.Obj == 0)
		case sx.Slice:
			return smt.BoolC(x.Obj == 0)
		case sx.Iface:
			return smt.BoolC(x.T == nil)
		case sx.MapRef:
			return smt.BoolC(x.Obj == 0)
		case *sx.Closure:
			return smt.BoolC(x == nil)
		}
		fail("comparison of %T with nil", o.V)
	}
	if _, ok := a.V.(*smt.Term); ok {
		x, y := ev.Term(a), ev.Term(b)
		if x.S != y.S {
			fail("sort mismatch in ==: %s vs %s", x.S, y.S)
		}
		if x.S.K == smt.KArray {
			// extensional equality, stated at a fresh index: as a goal this
			// is equivalent to array equality (the index is universally
			// quantified); as a hypothesis it is weaker, hence sound.
			if x == y {
				return smt.True
			}
			k := ev.P.Fresh("sk", x.S.Idx)
			return smt.Eq(smt.Select(x, k), smt.Select(y, k))
		}
		return smt.Eq(x, y)
	}
	return ev.P.EqVal(a.V, b.V)
}

func exprString(e ast.Expr) string {
	var sb strings.Builder
	ast.Fprint(&sb, nil, e, nil)
	s := sb.String()
	if len(s) > 200 {
		s = s[:200]
	}
	return s
}

func (ev *Eval) selector(e *ast.SelectorExpr) TV {
	// result.0 style is written result0; package-qualified names are not used
	v := ev.Eval(e.X)
	return ev.Field(v, e.Sel.Name)
}

// Field selects a struct field (through pointers) by name.
func (ev *Eval) Field(v TV, name string) TV {
	if v.T == nil {
		fail("field %s of untyped value", name)
	}
	t := v.T
	if pt, ok := t.Underlying().(*types.Pointer); ok {
		v = ev.deref(v)
		t = pt.Elem()
	}
	st, ok := t.Underlying().(*types.Struct)
	if !ok {
		fail("field %s of non-struct %s", name, t)
	}
	for i := 0; i < st.NumFields(); i++ {
		if st.Field(i).Name() == name {
			s, ok := v.V.(*sx.Struct)
			if !ok {
				fail("field %s of %T", name, v.V)
			}
			return TV{s.F[i], st.Field(i).Type()}
		}
	}
	fail("no field %s in %s", name, t)
	return TV{}
}


func (ev *Eval) index(e *ast.IndexExpr) TV {
	base := ev.Eval(e.X)
	idx := ev.Eval(e.Index)
	switch b := base.V.(type) {
	case sx.Slice:
		i := ev.Term(idx)
		var et types.Type
		if base.T != nil {
			et = base.T.Underlying().(*types.Slice).Elem()
		}
		if b.Obj == 0 {
			fail("index of nil slice in specification")
		}
		a := ev.P.Heap[b.Obj].(*sx.Arr)
		return TV{ev.arrGet(a, smt.BVAdd(b.Off, i)), et}
	case *sx.Arr:
		i := ev.Term(idx)
		var et types.Type
		if base.T != nil {
			et = base.T.Underlying().(*types.Array).Elem()
		}
		return TV{ev.arrGet(b, i), et}
	case sx.Str:
		i := ev.Term(idx)
		if b.Concrete() {
			k, ok := i.Uint64()
			if ok {
				if k >= uint64(len(b.S)) {
					return TV{smt.BVU(0, 8), types.Typ[types.Uint8]}
				}
				return TV{smt.BVU(uint64(b.S[k]), 8), types.Typ[types.Uint8]}
			}
			r := smt.BVU(0, 8)
			for k := len(b.S) - 1; k >= 0; k-- {
				r = smt.Ite(smt.Eq(i, smt.BVU(uint64(k), 64)), smt.BVU(uint64(b.S[k]), 8), r)
			}
			return TV{r, types.Typ[types.Uint8]}
		}
		if b.Arr != nil {
			return TV{smt.Select(b.Arr, i), types.Typ[types.Uint8]}
		}
	case sx.MapRef:
		var vt types.Type
		if base.T != nil {
			vt = base.T.Underlying().(*types.Map).Elem()
		}
		if b.Obj == 0 {
			return TV{sx.Zero(vt), vt}
		}
		r, _ := ev.P.MapLookup(b, idx.V, vt)
		return TV{r, vt}
	case *smt.Term:
		if b.S.K == smt.KArray {
			i := ev.Term(idx)
			if i.S != b.S.Idx {
				if i.S.K == smt.KBV && b.S.Idx.K == smt.KBV {
					i = smt.Resize(i, b.S.Idx.W)
				}
			}
			return TV{smt.Select(b, i), nil}
		}
	}
	fail("index of %T", base.V)
	return TV{}
}

// arrGet reads an element without forking: specification reads of concrete
// arrays at symbolic indices use ite chains for scalars and structs of scalars.
func (ev *Eval) arrGet(a *sx.Arr, i *smt.Term) sx.Val {
	if a.Elems == nil {
		return ev.P.Load(sx.Ptr{Obj: ev.P.Alloc(a), Path: []sx.PathElem{{Idx: i}}}, "spec")
	}
	if k, ok := i.Uint64(); ok {
		if k >= uint64(len(a.Elems)) {
			fail("specification index %d out of range %d", k, len(a.Elems))
		}
		return a.Elems[k]
	}
	if len(a.Elems) == 0 {
		fail("symbolic index into empty array")
	}
	return iteChain(a.Elems, i)
}

func iteChain(el []sx.Val, i *smt.Term) sx.Val {
	switch el[0].(type) {
	case *smt.Term:
		r := el[len(el)-1].(*smt.Term)
		for k := len(el) - 2; k >= 0; k-- {
			r = smt.Ite(smt.Eq(i, smt.BVU(uint64(k), 64)), el[k].(*smt.Term), r)
		}
		return r
	case *sx.Struct:
		n := len(el[0].(*sx.Struct).F)
		out := &sx.Struct{F: make([]sx.Val, n)}
		for f := 0; f < n; f++ {
			col := make([]sx.Val, len(el))
			for k := range el {
				col[k] = el[k].(*sx.Struct).F[f]
			}
			out.F[f] = iteChain(col, i)
		}
		return out
	}
	panic(EvalError{fmt.Sprintf("symbolic index into array of %T", el[0])})
}

func (ev *Eval) sliceExpr(e *ast.SliceExpr) TV {
	base := ev.Eval(e.X)
	b, ok := base.V.(sx.Slice)
	if !ok {
		fail("slice expression on %T", base.V)
	}
	lo := smt.BVU(0, 64)
	hi := b.Len
	if e.Low != nil {
		lo = ev.Term(ev.Eval(e.Low))
	}
	if e.High != nil {
		hi = ev.Term(ev.Eval(e.High))
	}
	return TV{sx.Slice{Obj: b.Obj, Off: smt.BVAdd(b.Off, lo), Len: smt.BVSub(hi, lo), Cap: smt.BVSub(b.Cap, lo)}, base.T}
}

var basicByName = map[string]types.Type{
	"int": types.Typ[types.Int], "int8": types.Typ[types.Int8], "int16": types.Typ[types.Int16],
	"int32": types.Typ[types.Int32], "int64": types.Typ[types.Int64],
	"uint": types.Typ[types.Uint], "uint8": types.Typ[types.Uint8], "byte": types.Typ[types.Uint8],
	"uint16": types.Typ[types.Uint16], "uint32": types.Typ[types.Uint32], "uint64": types.Typ[types.Uint64],
	"uintptr": types.Typ[types.Uintptr],
}

func bitsOf(t types.Type) (int, bool) {
	b, ok := t.Underlying().(*types.Basic)
	if !ok {
		return 0, false
	}
	switch b.Kind() {
	case types.Int8, types.Uint8:
		return 8, true
	case types.Int16, types.Uint16:
		return 16, true
	case types.Int32, types.Uint32:
		return 32, true
	case types.Int, types.Int64, types.Uint, types.Uint64, types.Uintptr:
		return 64, true
	}
	return 0, false
}

func (ev *Eval) call(e *ast.CallExpr) TV {
	boolT := types.Typ[types.Bool]
	switch f := e.Fun.(type) {
	case *ast.Ident:
		switch f.Name {
		case "implies_":
			l := ev.Bool(e.Args[0])
			if l.IsFalse() {
				return TV{smt.True, boolT}
			}
			return TV{smt.Implies(l, ev.Bool(e.Args[1])), boolT}
		case "forall_", "exists_":
			return ev.quant(f.Name == "forall_", e.Args[0].(*ast.FuncLit))
		case "old":
			if ev.Old == nil {
				return ev.Eval(e.Args[0])
			}
			saved := ev.P.Heap
			ev.P.Heap = ev.OldHeap
			defer func() { ev.P.Heap = saved }()
			// entry-state variables, plus the quantifier-bound variables
			// that are in scope at the use of old()
			o := ev.Old.child()
			for k, v := range ev.Vars {
				if _, has := ev.Old.Vars[k]; !has && k != "result" && !strings.HasPrefix(k, "result") {
					o.Vars[k] = v
				}
			}
			return o.Eval(e.Args[0])
		case "len":
			v := ev.Eval(e.Args[0])
			switch x := v.V.(type) {
			case sx.Slice:
				return TV{x.Len, types.Typ[types.Int]}
			case sx.Str:
				return TV{ev.P.StrLen(x), types.Typ[types.Int]}
			case sx.MapRef:
				if x.Obj == 0 {
					return TV{smt.BVU(0, 64), types.Typ[types.Int]}
				}
				return TV{smt.BVU(uint64(len(ev.P.Heap[x.Obj].(*sx.MapVal).Keys)), 64), types.Typ[types.Int]}
			case *sx.Arr:
				return TV{smt.BVU(uint64(len(x.Elems)), 64), types.Typ[types.Int]}
			}
			fail("len of %T", v.V)
		case "cap":
			v := ev.Eval(e.Args[0])
			if x, ok := v.V.(sx.Slice); ok {
				return TV{x.Cap, types.Typ[types.Int]}
			}
			fail("cap of %T", v.V)
		case "ite":
			c := ev.Bool(e.Args[0])
			if c.IsTrue() {
				return ev.Eval(e.Args[1])
			}
			if c.IsFalse() {
				return ev.Eval(e.Args[2])
			}
			a, b := coerce(ev.Eval(e.Args[1]), ev.Eval(e.Args[2]))
			return TV{smt.Ite(c, ev.Term(a), ev.Term(b)), a.T}
		}
		if t, ok := basicByName[f.Name]; ok {
			v := ev.Eval(e.Args[0])
			w, _ := bitsOf(t)
			if c, ok := untyped(v); ok {
				return TV{smt.BVC(c, w), t}
			}
			x := ev.Term(v)
			if x.S.K != smt.KBV {
				fail("conversion of non-integer")
			}
			if x.S.W >= w {
				return TV{smt.Resize(x, w), t}
			}
			if isSigned(v.T) {
				return TV{smt.SignExt(x, w-x.S.W), t}
			}
			return TV{smt.ZeroExt(x, w-x.S.W), t}
		}
		if b, ok := ev.Builtins[f.Name]; ok {
			return b(ev, e.Args)
		}
		if sf, ok := ev.Funcs[f.Name]; ok {
			if len(sf.Params) != len(e.Args) {
				fail("spec function %s: %d arguments, want %d", sf.Name, len(e.Args), len(sf.Params))
			}
			c := ev.child()
			c.depth = ev.depth + 1
			if c.depth > 200 {
				fail("spec function recursion too deep in %s", sf.Name)
			}
			for i, prm := range sf.Params {
				c.Vars[prm] = ev.Eval(e.Args[i])
			}
			return c.Eval(sf.Body)
		}
		fail("unknown function %s", f.Name)
	case *ast.SelectorExpr:
		// method call on a value: x.M(args) executed by the interpreter
		recv := ev.Eval(f.X)
		return ev.method(recv, f.Sel.Name, e.Args)
	}
	fail("unsupported call form")
	return TV{}
}

func (ev *Eval) method(recv TV, name string, args []ast.Expr) TV {
	if recv.T == nil {
		fail("method %s on untyped value", name)
	}
	var as []sx.Val
	t := recv.T
	rv := recv.V
	if iv, ok := rv.(sx.Iface); ok {
		if iv.T == nil {
			fail("method %s on nil interface", name)
		}
		t = iv.T
		rv = iv.V
	}
	ms := ev.Prog.M.Prog.MethodSets.MethodSet(t)
	var pkg *types.Package
	if n, ok := derefNamed(t); ok && n.Obj() != nil {
		pkg = n.Obj().Pkg()
	}
	sel := ms.Lookup(pkg, name)
	if sel == nil {
		// try pointer receiver
		ms = ev.Prog.M.Prog.MethodSets.MethodSet(types.NewPointer(t))
		sel = ms.Lookup(pkg, name)
		if sel == nil {
			fail("no method %s on %s", name, t)
		}
		rv = sx.Ptr{Obj: ev.P.Alloc(rv)}
	}
	fn := ev.Prog.M.Prog.MethodValue(sel)
	as = append(as, rv)
	sig := fn.Signature
	for i, a := range args {
		v := ev.Eval(a)
		if c, ok := untyped(v); ok {
			pt := sig.Params().At(i).Type()
			w, _ := bitsOf(pt)
			v = TV{smt.BVC(c, w), pt}
		}
		as = append(as, v.V)
	}
	saved := ev.P.NoSafety
	ev.P.NoSafety = true
	r := ev.P.Call(fn, as, nil, nil)
	ev.P.NoSafety = saved
	var rt types.Type
	if sig.Results().Len() == 1 {
		rt = sig.Results().At(0).Type()
	} else if sig.Results().Len() > 1 {
		rt = sig.Results()
	}
	return TV{r, rt}
}

func derefNamed(t types.Type) (*types.Named, bool) {
	if p, ok := t.(*types.Pointer); ok {
		t = p.Elem()
	}
	n, ok := t.(*types.Named)
	return n, ok
}

// quant evaluates forall/exists. A binder whose body has the shape
// "lo <= i && i < hi ==> P" with concrete lo, hi is expanded; otherwise an
// SMT quantifier over a 64-bit (or declared-width) variable is produced.
func (ev *Eval) quant(forall bool, fl *ast.FuncLit) TV {
	boolT := types.Typ[types.Bool]
	body := fl.Body.List[0].(*ast.ReturnStmt).Results[0]
	type binder struct {
		name string
		t    types.Type
	}
	var bs []binder
	for _, f := range fl.Type.Params.List {
		var t types.Type = types.Typ[types.Int]
		if id, ok := f.Type.(*ast.Ident); ok {
			if bt, ok := basicByName[id.Name]; ok {
				t = bt
			} else if v, ok := ev.Vars["type:"+id.Name]; ok {
				t = v.T
			}
		}
		for _, n := range f.Names {
			bs = append(bs, binder{n.Name, t})
		}
	}
	// bounded expansion for a single binder
	if len(bs) == 1 {
		if lo, hi, ok := ev.rangeOf(body, bs[0].name, forall); ok && hi-lo <= 4096 {
			w, _ := bitsOf(bs[0].t)
			var parts []*smt.Term
			for k := lo; k < hi; k++ {
				c := ev.child()
				c.Vars[bs[0].name] = TV{smt.BVI(k, w), bs[0].t}
				parts = append(parts, c.Bool(body))
			}
			if forall {
				return TV{smt.And(parts...), boolT}
			}
			return TV{smt.Or(parts...), boolT}
		}
	}
	c := ev.child()
	var vars []*smt.Term
	for _, b := range bs {
		w, _ := bitsOf(b.t)
		bv := smt.BoundVar(fmt.Sprintf("%s!q%d", b.name, quantSeq()), smt.BV(w))
		vars = append(vars, bv)
		c.Vars[b.name] = TV{bv, b.t}
	}
	t := c.Bool(body)
	if forall {
		return TV{smt.Forall(vars, t), boolT}
	}
	return TV{smt.Exists(vars, t), boolT}
}

var qseq int64

func quantSeq() int { return int(atomic.AddInt64(&qseq, 1)) }

// rangeOf recognises "lo <= i && i < hi ==> P" (forall) or
// "lo <= i && i < hi && P" (exists) with concrete bounds.
func (ev *Eval) rangeOf(body ast.Expr, name string, forall bool) (lo, hi int64, ok bool) {
	var guard ast.Expr
	if forall {
		c, isCall := body.(*ast.CallExpr)
		if !isCall {
			return
		}
		id, isId := c.Fun.(*ast.Ident)
		if !isId || id.Name != "implies_" {
			return
		}
		guard = c.Args[0]
	} else {
		guard = body
	}
	var conj []ast.Expr
	var flat func(e ast.Expr)
	flat = func(e ast.Expr) {
		if p, ok := e.(*ast.ParenExpr); ok {
			flat(p.X)
			return
		}
		if b, ok := e.(*ast.BinaryExpr); ok && b.Op == token.LAND {
			flat(b.X)
			flat(b.Y)
			return
		}
		conj = append(conj, e)
	}
	flat(guard)
	haveLo, haveHi := false, false
	isVar := func(e ast.Expr) bool {
		id, ok := e.(*ast.Ident)
		return ok && id.Name == name
	}
	conc := func(e ast.Expr) (int64, bool) {
		var r int64
		okc := false
		func() {
			defer func() {
				if x := recover(); x != nil {
					if _, isE := x.(EvalError); !isE {
						panic(x)
					}
				}
			}()
			v := ev.Eval(e)
			if c, ok := untyped(v); ok {
				r, okc = c.Int64(), true
				return
			}
			if t, ok := v.V.(*smt.Term); ok {
				if k, ok := t.Uint64(); ok {
					r, okc = int64(k), true
				}
			}
		}()
		return r, okc
	}
	for _, c := range conj {
		b, isB := c.(*ast.BinaryExpr)
		if !isB {
			continue
		}
		switch {
		case b.Op == token.LEQ && isVar(b.Y):
			if v, ok := conc(b.X); ok {
				lo, haveLo = v, true
			}
		case b.Op == token.LSS && isVar(b.Y):
			if v, ok := conc(b.X); ok {
				lo, haveLo = v+1, true
			}
		case b.Op == token.LSS && isVar(b.X):
			if v, ok := conc(b.Y); ok {
				hi, haveHi = v, true
			}
		case b.Op == token.LEQ && isVar(b.X):
			if v, ok := conc(b.Y); ok {
				hi, haveHi = v+1, true
			}
		}
	}
	if haveLo && haveHi {
		if hi < lo {
			hi = lo
		}
		return lo, hi, true
	}
	return 0, 0, false
}
