package smt

import (
	"bytes"
	"context"
	"fmt"
	"math/big"
	"os"
	"os/exec"
	"path/filepath"
	"regexp"
	"runtime"
	"strings"
	"sync"
	"time"
)

// Script renders "assert all of hyps, assert not goal, check-sat" with
// shared sub-terms named by define-fun. prelude is raw SMT-LIB placed after
// the declarations (datatype declarations go into preDecl, before them).
type Query struct {
	Name    string
	Hyps    []*Term
	Goal    *Term // the query checks Hyps ∧ ¬Goal; nil means check Hyps alone (cover)
	PreDecl string
	Prelude string
	Values  []*Term // terms whose model values are requested when sat
}

func (q *Query) all() []*Term {
	ts := append([]*Term{}, q.Hyps...)
	if q.Goal != nil {
		ts = append(ts, q.Goal)
	}
	return ts
}

func hasQuant(ts []*Term) bool {
	seen := map[int]bool{}
	found := false
	var walk func(t *Term)
	walk = func(t *Term) {
		if found || seen[t.ID] {
			return
		}
		seen[t.ID] = true
		if t.Op == "forall" || t.Op == "exists" {
			found = true
			return
		}
		for _, a := range t.Args {
			walk(a)
		}
	}
	for _, t := range ts {
		walk(t)
	}
	return found
}

// Render produces the SMT-LIB text. dialect: "z3" or "cvc5".
func (q *Query) Render() string {
	var sb strings.Builder
	ts := q.all()
	sb.WriteString("(set-option :produce-models true)\n")
	sb.WriteString("(set-logic ALL)\n")
	sb.WriteString(q.PreDecl)
	for _, v := range FreeVars(append(ts, q.Values...)...) {
		fmt.Fprintf(&sb, "(declare-fun %s () %s)\n", v.Name, v.S)
	}
	declared := map[string]bool{}
	for _, l := range strings.Split(q.Prelude+q.PreDecl, "\n") {
		// symbols defined by the prelude are not re-declared
		if m := defRe.FindStringSubmatch(l); m != nil {
			declared[m[1]] = true
		}
	}
	for _, f := range UsedFuncs(append(ts, q.Values...)...) {
		if declared[f.Name] {
			continue
		}
		fmt.Fprintf(&sb, "(declare-fun %s (", f.Name)
		for i, a := range f.Args {
			if i > 0 {
				sb.WriteString(" ")
			}
			sb.WriteString(a.String())
		}
		fmt.Fprintf(&sb, ") %s)\n", f.Ret)
	}
	sb.WriteString(q.Prelude)
	// name shared terms
	cnt := map[int]int{}
	var order []*Term
	var walk func(t *Term)
	walk = func(t *Term) {
		cnt[t.ID]++
		if cnt[t.ID] > 1 {
			return
		}
		for _, a := range t.Args {
			walk(a)
		}
		order = append(order, t)
	}
	for _, t := range append(append([]*Term{}, ts...), q.Values...) {
		walk(t)
	}
	named := map[int]string{}
	for _, t := range order {
		if t.Bound || len(t.Args) == 0 {
			continue
		}
		if cnt[t.ID] > 1 {
			n := fmt.Sprintf("t!%d", t.ID)
			sb.WriteString("(define-fun " + n + " () " + t.S.String() + " ")
			t.write(&sb, named)
			sb.WriteString(")\n")
			named[t.ID] = n
		}
	}
	for _, h := range q.Hyps {
		sb.WriteString("(assert ")
		h.write(&sb, named)
		sb.WriteString(")\n")
	}
	if q.Goal != nil {
		sb.WriteString("(assert (not ")
		q.Goal.write(&sb, named)
		sb.WriteString("))\n")
	}
	sb.WriteString("(check-sat)\n")
	if len(q.Values) > 0 {
		sb.WriteString("(get-value (")
		for i, v := range q.Values {
			if i > 0 {
				sb.WriteString(" ")
			}
			v.write(&sb, named)
		}
		sb.WriteString("))\n")
	}
	return sb.String()
}

var defRe = regexp.MustCompile(`^\s*\((?:define-fun|define-fun-rec|declare-fun|declare-const)\s+(\S+)`)

type Result struct {
	Status  string // unsat | sat | unknown | timeout | error
	Solver  string
	Seconds float64
	Output  string
	Model   map[int]*Term // Values[i].ID -> constant
	File    string
}

type solverSpec struct {
	name string
	args func(file string, secs int) []string
}

var solvers = []solverSpec{
	{"z3-new", func(f string, s int) []string { return []string{"z3-new", fmt.Sprintf("-T:%d", s), f} }},
	{"z3", func(f string, s int) []string { return []string{"z3", fmt.Sprintf("-T:%d", s), f} }},
	{"cvc5", func(f string, s int) []string {
		return []string{"cvc5", fmt.Sprintf("--tlimit=%d", s*1000), f}
	}},
}

// solveSem limits the number of concurrent solver races.
var solveSem = make(chan struct{}, (runtime.NumCPU()*3+3)/4)

// KeepQueries keeps every query file (debugging).
var KeepQueries = os.Getenv("GOCV_KEEPQ") != ""

// ScratchDir is where query files are written.
var ScratchDir = os.TempDir()

var fileSeq int
var fileMu sync.Mutex

// Solve races the installed solvers on the query. The first definite answer
// (unsat or sat) wins.
func Solve(q *Query, secs int, only ...string) Result {
	plainValues := true
	for _, v := range q.Values {
		if v.Op != "var" {
			plainValues = false
		}
	}
	if nq, back, ok := OrderAbstract(q); ok && len(back) > 0 && plainValues {
		r := solveRaw(nq, secs, only...)
		if r.Status == "sat" {
			m := map[int]*Term{}
			for id, c := range r.Model {
				if bv, isInt := back[id]; isInt && c.Op == "intconst" {
					m[bv.ID] = BVC(c.C, bv.S.W)
				} else {
					m[id] = c
				}
			}
			r.Model = m
		}
		if r.Status == "sat" || r.Status == "unsat" {
			r.Solver += "/lia"
			return r
		}
	}
	return solveRaw(q, secs, only...)
}

func solveRaw(q *Query, secs int, only ...string) Result {
	solveSem <- struct{}{}
	defer func() { <-solveSem }()
	text := q.Render()
	fileMu.Lock()
	fileSeq++
	n := fileSeq
	fileMu.Unlock()
	safe := regexp.MustCompile(`[^A-Za-z0-9_.-]+`).ReplaceAllString(q.Name, "_")
	if len(safe) > 80 {
		safe = safe[:80]
	}
	file := filepath.Join(ScratchDir, fmt.Sprintf("q%05d_%s.smt2", n, safe))
	if err := os.WriteFile(file, []byte(text), 0o644); err != nil {
		return Result{Status: "error", Output: err.Error()}
	}
	quant := hasQuant(q.all())
	ctx, cancel := context.WithTimeout(context.Background(), time.Duration(secs+5)*time.Second)
	defer cancel()
	type one struct {
		r Result
	}
	ch := make(chan Result, len(solvers))
	started := 0
	for _, sp := range solvers {
		if len(only) > 0 {
			ok := false
			for _, o := range only {
				if o == sp.name {
					ok = true
				}
			}
			if !ok {
				continue
			}
		}
		if sp.name == "cvc5" && !quant && len(only) == 0 {
			// cvc5 1.0 is much slower on the quantifier-free
			// bit-vector goals produced here; it is raced only
			// where it is known to help (quantified goals).
			continue
		}
		started++
		delay := time.Duration(0)
		if started > 1 && len(only) == 0 {
			// staged race: most goals are decided by the first solver
			// within a second; the others join only when it is slow
			delay = 1500 * time.Millisecond
		}
		go func(sp solverSpec, delay time.Duration) {
			if delay > 0 {
				select {
				case <-time.After(delay):
				case <-ctx.Done():
					ch <- Result{Status: "unknown", Solver: sp.name, File: file}
					return
				}
			}
			a := sp.args(file, secs)
			t0 := time.Now()
			cmd := exec.CommandContext(ctx, a[0], a[1:]...)
			var out bytes.Buffer
			cmd.Stdout = &out
			cmd.Stderr = &out
			_ = cmd.Run()
			o := out.String()
			first := strings.TrimSpace(strings.SplitN(strings.TrimSpace(o), "\n", 2)[0])
			st := "unknown"
			switch {
			case first == "unsat":
				st = "unsat"
			case first == "sat":
				st = "sat"
			case first == "timeout" || strings.Contains(first, "timeout") || ctx.Err() != nil:
				st = "timeout"
			case strings.HasPrefix(first, "(error"):
				st = "error"
			}
			ch <- Result{Status: st, Solver: sp.name, Seconds: time.Since(t0).Seconds(), Output: o, File: file}
		}(sp, delay)
	}
	var best Result
	best.Status = "unknown"
	best.File = file
	for i := 0; i < started; i++ {
		r := <-ch
		if r.Status == "unsat" || r.Status == "sat" {
			cancel()
			if r.Status == "sat" && len(q.Values) > 0 {
				r.Model = parseValues(r.Output, q.Values)
			}
			if r.Status == "unsat" && !KeepQueries {
				os.Remove(file)
			}
			return r
		}
		if best.Solver == "" || (best.Status == "error" && r.Status != "error") {
			best = r
		}
	}
	return best
}

// parseValues parses the "(get-value ...)" answer: a list of (term value)
// pairs in request order. Only bit-vector, Bool and Int constants are parsed.
func parseValues(out string, vals []*Term) map[int]*Term {
	idx := strings.Index(out, "\n")
	if idx < 0 {
		return nil
	}
	s := out[idx+1:]
	toks := tokenize(s)
	pos := 0
	var parse func() interface{}
	parse = func() interface{} {
		if pos >= len(toks) {
			return nil
		}
		t := toks[pos]
		pos++
		if t == "(" {
			var l []interface{}
			for pos < len(toks) && toks[pos] != ")" {
				l = append(l, parse())
			}
			pos++
			return l
		}
		return t
	}
	top, ok := parse().([]interface{})
	if !ok {
		return nil
	}
	m := map[int]*Term{}
	for i, p := range top {
		if i >= len(vals) {
			break
		}
		pair, ok := p.([]interface{})
		if !ok || len(pair) != 2 {
			continue
		}
		if c := sexpConst(pair[1], vals[i].S); c != nil {
			m[vals[i].ID] = c
		}
	}
	return m
}

func sexpConst(x interface{}, s *Sort) *Term {
	switch v := x.(type) {
	case string:
		switch {
		case v == "true":
			return True
		case v == "false":
			return False
		case strings.HasPrefix(v, "#x"):
			n, ok := new(big.Int).SetString(v[2:], 16)
			if ok && s.K == KBV {
				return BVC(n, s.W)
			}
		case strings.HasPrefix(v, "#b"):
			n, ok := new(big.Int).SetString(v[2:], 2)
			if ok && s.K == KBV {
				return BVC(n, s.W)
			}
		default:
			n, ok := new(big.Int).SetString(v, 10)
			if ok && s.K == KInt {
				return IntBig(n)
			}
		}
	case []interface{}:
		// (_ bv123 64) or (- 5)
		if len(v) == 3 {
			if a, ok := v[0].(string); ok && a == "_" {
				if b, ok := v[1].(string); ok && strings.HasPrefix(b, "bv") {
					n, ok := new(big.Int).SetString(b[2:], 10)
					if ok && s.K == KBV {
						return BVC(n, s.W)
					}
				}
			}
		}
		if len(v) == 2 {
			if a, ok := v[0].(string); ok && a == "-" {
				if b, ok := v[1].(string); ok {
					n, ok := new(big.Int).SetString(b, 10)
					if ok {
						return IntBig(n.Neg(n))
					}
				}
			}
		}
	}
	return nil
}

func tokenize(s string) []string {
	var out []string
	i := 0
	for i < len(s) {
		c := s[i]
		switch {
		case c == '(' || c == ')':
			out = append(out, string(c))
			i++
		case c == ' ' || c == '\n' || c == '\t' || c == '\r':
			i++
		case c == '|':
			j := strings.IndexByte(s[i+1:], '|')
			if j < 0 {
				return out
			}
			out = append(out, s[i:i+j+2])
			i += j + 2
		case c == '"':
			j := strings.IndexByte(s[i+1:], '"')
			if j < 0 {
				return out
			}
			out = append(out, s[i:i+j+2])
			i += j + 2
		default:
			j := i
			for j < len(s) && !strings.ContainsRune("() \n\t\r", rune(s[j])) {
				j++
			}
			out = append(out, s[i:j])
			i = j
		}
	}
	return out
}
