// Package rv is the reference model of the RISC-V unprivileged ISA used as
// the specification side of properties C01, C02, C03 and C25. It is written
// from the ISA manual (RV32I/RV64I 2.1, Zicsr, Zifencei, M 2.0, A 2.1), not
// from the code under verification. The tool's documented approximations are
// part of the reference: store-conditional always succeeds (writes 0), and
// fence, fence.i, ecall, ebreak change no state.
package rv

import (
	"fmt"

	"gocv/smt"
)

// Enc is the encoding of one mnemonic: word & Mask == Match.
type Enc struct {
	Name  string
	Mask  uint32
	Match uint32
	Ext   string // "I", "M", "A"
	Sem   func(m *M)
}

// M is a machine state transformer under construction.
type M struct {
	XLen int
	Word *smt.Term // 32 bits
	PC   *smt.Term // XLen bits
	X    *smt.Term // Array BV5 -> BV(XLen), pre-state
	CSR  *smt.Term // Array BV12 -> BV(XLen), pre-state
	MEM  *smt.Term // Array BV64 -> BV8, pre-state
	// post-state
	OX, OCSR, OMEM, OPC *smt.Term
	// NoWrap collects the side conditions under which a memory access does
	// not wrap around the variant's address space (RV32 only).
	NoWrap []*smt.Term
}

func NewM(xlen int, word, pc, x, csr, mem *smt.Term) *M {
	m := &M{XLen: xlen, Word: word, PC: pc, X: x, CSR: csr, MEM: mem}
	m.OX, m.OCSR, m.OMEM = x, csr, mem
	m.OPC = smt.BVAdd(pc, smt.BVU(4, xlen))
	return m
}

func (m *M) bits(hi, lo int) *smt.Term { return smt.Extract(m.Word, hi, lo) }
func (m *M) Rd() *smt.Term           { return m.bits(11, 7) }
func (m *M) Rs1() *smt.Term          { return m.bits(19, 15) }
func (m *M) Rs2() *smt.Term          { return m.bits(24, 20) }
func (m *M) c(v uint64) *smt.Term    { return smt.BVU(v, m.XLen) }
func (m *M) sx(t *smt.Term) *smt.Term { return smt.SResize(t, m.XLen) }
func (m *M) zx(t *smt.Term) *smt.Term { return smt.Resize(t, m.XLen) }

// x reads a register of the pre-state; x0 reads as zero.
func (m *M) x(n *smt.Term) *smt.Term {
	return smt.Ite(smt.Eq(n, smt.BVU(0, 5)), m.c(0), smt.Select(m.X, n))
}

// setx writes a register; writes to x0 are discarded.
func (m *M) setx(n, v *smt.Term) {
	m.OX = smt.Ite(smt.Eq(n, smt.BVU(0, 5)), m.OX, smt.Store(m.OX, n, v))
}

func (m *M) ImmI() *smt.Term { return m.sx(m.bits(31, 20)) }
func (m *M) ImmS() *smt.Term { return m.sx(smt.Concat(m.bits(31, 25), m.bits(11, 7))) }
func (m *M) ImmB() *smt.Term {
	return m.sx(smt.Concat(smt.Concat(smt.Concat(smt.Concat(m.bits(31, 31), m.bits(7, 7)), m.bits(30, 25)), m.bits(11, 8)), smt.BVU(0, 1)))
}
func (m *M) ImmU() *smt.Term { return m.sx(smt.Concat(m.bits(31, 12), smt.BVU(0, 12))) }
func (m *M) ImmJ() *smt.Term {
	return m.sx(smt.Concat(smt.Concat(smt.Concat(smt.Concat(m.bits(31, 31), m.bits(19, 12)), m.bits(20, 20)), m.bits(30, 21)), smt.BVU(0, 1)))
}

// addr64 turns an XLen-bit address into the index of the memory array.
func (m *M) addr64(a *smt.Term) *smt.Term { return smt.Resize(a, 64) }

// load reads n bytes little-endian from the pre-state memory.
func (m *M) load(a *smt.Term, n int) *smt.Term {
	m.noWrap(a, n)
	base := m.addr64(a)
	var r *smt.Term
	for i := 0; i < n; i++ {
		b := smt.Select(m.MEM, smt.BVAdd(base, smt.BVU(uint64(i), 64)))
		if r == nil {
			r = b
		} else {
			r = smt.Concat(b, r)
		}
	}
	return r
}

// store writes the low n bytes of v little-endian.
func (m *M) store(a *smt.Term, n int, v *smt.Term) {
	m.noWrap(a, n)
	base := m.addr64(a)
	for i := 0; i < n; i++ {
		m.OMEM = smt.Store(m.OMEM, smt.BVAdd(base, smt.BVU(uint64(i), 64)), smt.Extract(v, 8*i+7, 8*i))
	}
}

func (m *M) noWrap(a *smt.Term, n int) {
	if m.XLen == 32 && n > 1 {
		// a + n - 1 does not exceed 2^32 - 1
		m.NoWrap = append(m.NoWrap, smt.BVUle(a, smt.BVU(uint64(1<<32)-uint64(n), 32)))
	}
}

func (m *M) csrNo() *smt.Term { return m.bits(31, 20) }

// ---- semantic building blocks ----

func (m *M) opImm(f func(a, b *smt.Term) *smt.Term) {
	m.setx(m.Rd(), f(m.x(m.Rs1()), m.ImmI()))
}
func (m *M) op(f func(a, b *smt.Term) *smt.Term) {
	m.setx(m.Rd(), f(m.x(m.Rs1()), m.x(m.Rs2())))
}
func (m *M) bool2x(c *smt.Term) *smt.Term { return smt.Ite(c, m.c(1), m.c(0)) }
func (m *M) branch(c *smt.Term) {
	m.OPC = smt.Ite(c, smt.BVAdd(m.PC, m.ImmB()), smt.BVAdd(m.PC, m.c(4)))
}
func (m *M) shamtMask() *smt.Term { return m.c(uint64(m.XLen - 1)) }

// 32-bit ("W") operations on RV64: operate on the low 32 bits, sign-extend.
func (m *M) w(t *smt.Term) *smt.Term { return smt.Extract(t, 31, 0) }
func (m *M) opW(f func(a, b *smt.Term) *smt.Term) {
	m.setx(m.Rd(), m.sx(f(m.w(m.x(m.Rs1())), m.w(m.x(m.Rs2())))))
}

// Mul and UDiv are the unsigned multiplication and division primitives of
// the reference. By default they are the SMT-LIB operators; a verifier may
// replace them by uninterpreted symbols shared with the code side (sound for
// validity: the proof then holds for every interpretation, the real one
// included). Signed division and the remainders are *defined* from them
// exactly as SMT-LIB defines bvsdiv, bvsrem and bvurem.
var Mul = func(a, b *smt.Term) *smt.Term { return smt.BVMul(a, b) }
var UDiv = func(a, b *smt.Term) *smt.Term { return smt.BVUDiv(a, b) } // all ones when b = 0

func mulh(a, b *smt.Term, sa, sb bool) *smt.Term {
	n := a.S.W
	ext := func(t *smt.Term, s bool) *smt.Term {
		if s {
			return smt.SignExt(t, n)
		}
		return smt.ZeroExt(t, n)
	}
	p := Mul(ext(a, sa), ext(b, sb))
	return smt.Extract(p, 2*n-1, n)
}

func isNeg(a *smt.Term) *smt.Term {
	return smt.Eq(smt.Extract(a, a.S.W-1, a.S.W-1), smt.BVU(1, 1))
}
func abs(a *smt.Term) *smt.Term { return smt.Ite(isNeg(a), smt.BVNeg(a), a) }

func udiv(a, b *smt.Term) *smt.Term {
	return smt.Ite(smt.Eq(b, smt.BVU(0, b.S.W)), smt.BVNot(smt.BVU(0, b.S.W)), UDiv(a, b))
}
func urem(a, b *smt.Term) *smt.Term {
	// a - (a udiv b) * b ; the dividend when b = 0
	return smt.Ite(smt.Eq(b, smt.BVU(0, b.S.W)), a, smt.BVSub(a, Mul(UDiv(a, b), b)))
}

// sdiv: truncating signed division; all ones on zero divisor; MIN / -1 = MIN
// (|MIN| udiv 1 = MIN, negated twice or not at all gives MIN).
func sdiv(a, b *smt.Term) *smt.Term {
	n := a.S.W
	zero := smt.BVU(0, n)
	q := UDiv(abs(a), abs(b))
	sq := smt.Ite(smt.Eq(isNeg(a), isNeg(b)), q, smt.BVNeg(q))
	return smt.Ite(smt.Eq(b, zero), smt.BVNot(zero), sq)
}

// srem: sign of the dividend; the dividend on zero divisor; MIN rem -1 = 0.
func srem(a, b *smt.Term) *smt.Term {
	n := a.S.W
	zero := smt.BVU(0, n)
	// the defining identity of the remainder: a = q*b + r with the
	// truncating quotient q (in modular arithmetic this also yields 0 for
	// MIN rem -1, where q = MIN)
	sr := smt.BVSub(a, Mul(sdiv(a, b), b))
	return smt.Ite(smt.Eq(b, zero), a, sr)
}


func smin(a, b *smt.Term) *smt.Term { return smt.Ite(smt.BVSlt(a, b), a, b) }
func smax(a, b *smt.Term) *smt.Term { return smt.Ite(smt.BVSlt(a, b), b, a) }
func umin(a, b *smt.Term) *smt.Term { return smt.Ite(smt.BVUlt(a, b), a, b) }
func umax(a, b *smt.Term) *smt.Term { return smt.Ite(smt.BVUlt(a, b), b, a) }

func (m *M) amo(n int, f func(t, s *smt.Term) *smt.Term) {
	a := m.x(m.Rs1())
	t := m.load(a, n)
	s := smt.Extract(m.x(m.Rs2()), 8*n-1, 0)
	m.store(a, n, f(t, s))
	m.setx(m.Rd(), m.sx(t))
}

func (m *M) csrOp(newVal func(old *smt.Term) *smt.Term) {
	n := m.csrNo()
	old := smt.Select(m.CSR, n)
	m.OCSR = smt.Store(m.OCSR, n, newVal(old))
	m.setx(m.Rd(), old)
}

func (m *M) uimm() *smt.Term { return m.zx(m.bits(19, 15)) }

// ---- encodings ----

const (
	opLUI    = 0b0110111
	opAUIPC  = 0b0010111
	opJAL    = 0b1101111
	opJALR   = 0b1100111
	opBRANCH = 0b1100011
	opLOAD   = 0b0000011
	opSTORE  = 0b0100011
	opIMM    = 0b0010011
	opOP     = 0b0110011
	opFENCE  = 0b0001111
	opSYSTEM = 0b1110011
	opIMM32  = 0b0011011
	opOP32   = 0b0111011
	opAMO    = 0b0101111
)

func e7(name string, opc uint32, sem func(m *M)) Enc {
	return Enc{Name: name, Mask: 0x7f, Match: opc, Ext: "I", Sem: sem}
}
func e10(name string, f3, opc uint32, sem func(m *M)) Enc {
	return Enc{Name: name, Mask: 0x707f, Match: f3<<12 | opc, Ext: "I", Sem: sem}
}
func e17(name string, f7, f3, opc uint32, ext string, sem func(m *M)) Enc {
	return Enc{Name: name, Mask: 0xfe00707f, Match: f7<<25 | f3<<12 | opc, Ext: ext, Sem: sem}
}

// shift-immediate: the bits of the immediate above the shift amount are fixed
func eShift(name string, hi uint32, shamtBits uint, f3, opc uint32, sem func(m *M)) Enc {
	mask := uint32(0x707f) | (^uint32(0))<<(20+shamtBits)
	return Enc{Name: name, Mask: mask, Match: hi<<25 | f3<<12 | opc, Ext: "I", Sem: sem}
}
func eAmo(name string, f5, f3 uint32, sem func(m *M)) Enc {
	return Enc{Name: name, Mask: 0xf800707f, Match: f5<<27 | f3<<12 | opAMO, Ext: "A", Sem: sem}
}

// Encodings returns the instruction set of a variant (xlen 32 or 64) with all
// extensions (filter by Ext).
func Encodings(xlen int) []Enc {
	shBits := uint(5)
	if xlen == 64 {
		shBits = 6
	}
	var es []Enc
	add := func(e ...Enc) { es = append(es, e...) }
	add(
		e7("lui", opLUI, func(m *M) { m.setx(m.Rd(), m.ImmU()) }),
		e7("auipc", opAUIPC, func(m *M) { m.setx(m.Rd(), smt.BVAdd(m.PC, m.ImmU())) }),
		e7("jal", opJAL, func(m *M) {
			m.OPC = smt.BVAdd(m.PC, m.ImmJ())
			m.setx(m.Rd(), smt.BVAdd(m.PC, m.c(4)))
		}),
		e10("jalr", 0, opJALR, func(m *M) {
			t := smt.BVAdd(m.x(m.Rs1()), m.ImmI())
			m.OPC = smt.BVAnd(t, smt.BVNot(m.c(1)))
			m.setx(m.Rd(), smt.BVAdd(m.PC, m.c(4)))
		}),
		e10("beq", 0, opBRANCH, func(m *M) { m.branch(smt.Eq(m.x(m.Rs1()), m.x(m.Rs2()))) }),
		e10("bne", 1, opBRANCH, func(m *M) { m.branch(smt.Not(smt.Eq(m.x(m.Rs1()), m.x(m.Rs2())))) }),
		e10("blt", 4, opBRANCH, func(m *M) { m.branch(smt.BVSlt(m.x(m.Rs1()), m.x(m.Rs2()))) }),
		e10("bge", 5, opBRANCH, func(m *M) { m.branch(smt.BVSle(m.x(m.Rs2()), m.x(m.Rs1()))) }),
		e10("bltu", 6, opBRANCH, func(m *M) { m.branch(smt.BVUlt(m.x(m.Rs1()), m.x(m.Rs2()))) }),
		e10("bgeu", 7, opBRANCH, func(m *M) { m.branch(smt.BVUle(m.x(m.Rs2()), m.x(m.Rs1()))) }),
	)
	ld := func(name string, f3 uint32, n int, signed bool) Enc {
		return e10(name, f3, opLOAD, func(m *M) {
			v := m.load(smt.BVAdd(m.x(m.Rs1()), m.ImmI()), n)
			if signed {
				m.setx(m.Rd(), m.sx(v))
			} else {
				m.setx(m.Rd(), m.zx(v))
			}
		})
	}
	st := func(name string, f3 uint32, n int) Enc {
		return e10(name, f3, opSTORE, func(m *M) {
			m.store(smt.BVAdd(m.x(m.Rs1()), m.ImmS()), n, m.x(m.Rs2()))
		})
	}
	add(ld("lb", 0, 1, true), ld("lh", 1, 2, true), ld("lw", 2, 4, true), ld("lbu", 4, 1, false), ld("lhu", 5, 2, false))
	add(st("sb", 0, 1), st("sh", 1, 2), st("sw", 2, 4))
	if xlen == 64 {
		add(ld("ld", 3, 8, true), ld("lwu", 6, 4, false), st("sd", 3, 8))
	}
	add(
		e10("addi", 0, opIMM, func(m *M) { m.opImm(smt.BVAdd) }),
		e10("slti", 2, opIMM, func(m *M) { m.opImm(func(a, b *smt.Term) *smt.Term { return m.bool2x(smt.BVSlt(a, b)) }) }),
		e10("sltiu", 3, opIMM, func(m *M) { m.opImm(func(a, b *smt.Term) *smt.Term { return m.bool2x(smt.BVUlt(a, b)) }) }),
		e10("xori", 4, opIMM, func(m *M) { m.opImm(smt.BVXor) }),
		e10("ori", 6, opIMM, func(m *M) { m.opImm(smt.BVOr) }),
		e10("andi", 7, opIMM, func(m *M) { m.opImm(smt.BVAnd) }),
	)
	shamt := func(m *M) *smt.Term { return m.zx(smt.Extract(m.Word, 20+int(shBits)-1, 20)) }
	add(
		eShift("slli", 0, shBits, 1, opIMM, func(m *M) { m.setx(m.Rd(), smt.BVShl(m.x(m.Rs1()), shamt(m))) }),
		eShift("srli", 0, shBits, 5, opIMM, func(m *M) { m.setx(m.Rd(), smt.BVLshr(m.x(m.Rs1()), shamt(m))) }),
		eShift("srai", 0b0100000, shBits, 5, opIMM, func(m *M) { m.setx(m.Rd(), smt.BVAshr(m.x(m.Rs1()), shamt(m))) }),
	)
	sh := func(m *M, b *smt.Term) *smt.Term { return smt.BVAnd(b, m.shamtMask()) }
	add(
		e17("add", 0, 0, opOP, "I", func(m *M) { m.op(smt.BVAdd) }),
		e17("sub", 0b0100000, 0, opOP, "I", func(m *M) { m.op(smt.BVSub) }),
		e17("sll", 0, 1, opOP, "I", func(m *M) { m.op(func(a, b *smt.Term) *smt.Term { return smt.BVShl(a, sh(m, b)) }) }),
		e17("slt", 0, 2, opOP, "I", func(m *M) { m.op(func(a, b *smt.Term) *smt.Term { return m.bool2x(smt.BVSlt(a, b)) }) }),
		e17("sltu", 0, 3, opOP, "I", func(m *M) { m.op(func(a, b *smt.Term) *smt.Term { return m.bool2x(smt.BVUlt(a, b)) }) }),
		e17("xor", 0, 4, opOP, "I", func(m *M) { m.op(smt.BVXor) }),
		e17("srl", 0, 5, opOP, "I", func(m *M) { m.op(func(a, b *smt.Term) *smt.Term { return smt.BVLshr(a, sh(m, b)) }) }),
		e17("sra", 0b0100000, 5, opOP, "I", func(m *M) { m.op(func(a, b *smt.Term) *smt.Term { return smt.BVAshr(a, sh(m, b)) }) }),
		e17("or", 0, 6, opOP, "I", func(m *M) { m.op(smt.BVOr) }),
		e17("and", 0, 7, opOP, "I", func(m *M) { m.op(smt.BVAnd) }),
	)
	// fence: pred/succ free; the reserved fields fm, rs1 and rd must be zero
	// (the property statement: "fence ... with reserved fields zero"; the
	// optional FENCE.TSO encoding fm=1000 is therefore not part of the set)
	add(Enc{Name: "fence", Mask: 0xf00fffff, Match: opFENCE, Ext: "I", Sem: func(m *M) {}})
	// fence.i (Zifencei): imm, rs1, rd reserved, zero
	add(Enc{Name: "fence.i", Mask: 0xffffffff, Match: 1<<12 | opFENCE, Ext: "I", Sem: func(m *M) {}})
	add(Enc{Name: "ecall", Mask: 0xffffffff, Match: opSYSTEM, Ext: "I", Sem: func(m *M) {}})
	add(Enc{Name: "ebreak", Mask: 0xffffffff, Match: 1<<20 | opSYSTEM, Ext: "I", Sem: func(m *M) {}})
	add(
		e10("csrrw", 1, opSYSTEM, func(m *M) { r := m.x(m.Rs1()); m.csrOp(func(o *smt.Term) *smt.Term { return r }) }),
		e10("csrrs", 2, opSYSTEM, func(m *M) { r := m.x(m.Rs1()); m.csrOp(func(o *smt.Term) *smt.Term { return smt.BVOr(o, r) }) }),
		e10("csrrc", 3, opSYSTEM, func(m *M) {
			r := m.x(m.Rs1())
			m.csrOp(func(o *smt.Term) *smt.Term { return smt.BVAnd(o, smt.BVNot(r)) })
		}),
		e10("csrrwi", 5, opSYSTEM, func(m *M) { r := m.uimm(); m.csrOp(func(o *smt.Term) *smt.Term { return r }) }),
		e10("csrrsi", 6, opSYSTEM, func(m *M) { r := m.uimm(); m.csrOp(func(o *smt.Term) *smt.Term { return smt.BVOr(o, r) }) }),
		e10("csrrci", 7, opSYSTEM, func(m *M) {
			r := m.uimm()
			m.csrOp(func(o *smt.Term) *smt.Term { return smt.BVAnd(o, smt.BVNot(r)) })
		}),
	)
	if xlen == 64 {
		sh5 := func(m *M) *smt.Term { return smt.ZeroExt(m.bits(24, 20), 27) }
		add(
			e10("addiw", 0, opIMM32, func(m *M) { m.setx(m.Rd(), m.sx(smt.BVAdd(m.w(m.x(m.Rs1())), m.w(m.ImmI())))) }),
			e17("slliw", 0, 1, opIMM32, "I", func(m *M) { m.setx(m.Rd(), m.sx(smt.BVShl(m.w(m.x(m.Rs1())), sh5(m)))) }),
			e17("srliw", 0, 5, opIMM32, "I", func(m *M) { m.setx(m.Rd(), m.sx(smt.BVLshr(m.w(m.x(m.Rs1())), sh5(m)))) }),
			e17("sraiw", 0b0100000, 5, opIMM32, "I", func(m *M) { m.setx(m.Rd(), m.sx(smt.BVAshr(m.w(m.x(m.Rs1())), sh5(m)))) }),
			e17("addw", 0, 0, opOP32, "I", func(m *M) { m.opW(smt.BVAdd) }),
			e17("subw", 0b0100000, 0, opOP32, "I", func(m *M) { m.opW(smt.BVSub) }),
			e17("sllw", 0, 1, opOP32, "I", func(m *M) {
				m.opW(func(a, b *smt.Term) *smt.Term { return smt.BVShl(a, smt.BVAnd(b, smt.BVU(31, 32))) })
			}),
			e17("srlw", 0, 5, opOP32, "I", func(m *M) {
				m.opW(func(a, b *smt.Term) *smt.Term { return smt.BVLshr(a, smt.BVAnd(b, smt.BVU(31, 32))) })
			}),
			e17("sraw", 0b0100000, 5, opOP32, "I", func(m *M) {
				m.opW(func(a, b *smt.Term) *smt.Term { return smt.BVAshr(a, smt.BVAnd(b, smt.BVU(31, 32))) })
			}),
		)
	}
	// M
	add(
		e17("mul", 1, 0, opOP, "M", func(m *M) { m.op(Mul) }),
		e17("mulh", 1, 1, opOP, "M", func(m *M) { m.op(func(a, b *smt.Term) *smt.Term { return mulh(a, b, true, true) }) }),
		e17("mulhsu", 1, 2, opOP, "M", func(m *M) { m.op(func(a, b *smt.Term) *smt.Term { return mulh(a, b, true, false) }) }),
		e17("mulhu", 1, 3, opOP, "M", func(m *M) { m.op(func(a, b *smt.Term) *smt.Term { return mulh(a, b, false, false) }) }),
		e17("div", 1, 4, opOP, "M", func(m *M) { m.op(sdiv) }),
		e17("divu", 1, 5, opOP, "M", func(m *M) { m.op(udiv) }),
		e17("rem", 1, 6, opOP, "M", func(m *M) { m.op(srem) }),
		e17("remu", 1, 7, opOP, "M", func(m *M) { m.op(urem) }),
	)
	if xlen == 64 {
		add(
			e17("mulw", 1, 0, opOP32, "M", func(m *M) { m.opW(Mul) }),
			e17("divw", 1, 4, opOP32, "M", func(m *M) { m.opW(sdiv) }),
			e17("divuw", 1, 5, opOP32, "M", func(m *M) { m.opW(udiv) }),
			e17("remw", 1, 6, opOP32, "M", func(m *M) { m.opW(srem) }),
			e17("remuw", 1, 7, opOP32, "M", func(m *M) { m.opW(urem) }),
		)
	}
	// A
	amos := func(sfx string, f3 uint32, n int) {
		lr := eAmo("lr"+sfx, 0b00010, f3, func(m *M) { m.setx(m.Rd(), m.sx(m.load(m.x(m.Rs1()), n))) })
		lr.Mask |= 0x01f00000 // rs2 must be zero
		add(lr)
		add(eAmo("sc"+sfx, 0b00011, f3, func(m *M) {
			m.store(m.x(m.Rs1()), n, m.x(m.Rs2()))
			m.setx(m.Rd(), m.c(0)) // documented approximation: always succeeds
		}))
		add(
			eAmo("amoswap"+sfx, 0b00001, f3, func(m *M) { m.amo(n, func(t, s *smt.Term) *smt.Term { return s }) }),
			eAmo("amoadd"+sfx, 0b00000, f3, func(m *M) { m.amo(n, smt.BVAdd) }),
			eAmo("amoxor"+sfx, 0b00100, f3, func(m *M) { m.amo(n, smt.BVXor) }),
			eAmo("amoand"+sfx, 0b01100, f3, func(m *M) { m.amo(n, smt.BVAnd) }),
			eAmo("amoor"+sfx, 0b01000, f3, func(m *M) { m.amo(n, smt.BVOr) }),
			eAmo("amomin"+sfx, 0b10000, f3, func(m *M) { m.amo(n, smin) }),
			eAmo("amomax"+sfx, 0b10100, f3, func(m *M) { m.amo(n, smax) }),
			eAmo("amominu"+sfx, 0b11000, f3, func(m *M) { m.amo(n, umin) }),
			eAmo("amomaxu"+sfx, 0b11100, f3, func(m *M) { m.amo(n, umax) }),
		)
	}
	amos(".w", 2, 4)
	if xlen == 64 {
		amos(".d", 3, 8)
	}
	return es
}

// ByName indexes the encodings.
func ByName(xlen int) map[string]Enc {
	out := map[string]Enc{}
	for _, e := range Encodings(xlen) {
		if _, dup := out[e.Name]; dup {
			panic(fmt.Sprintf("duplicate reference encoding %s", e.Name))
		}
		out[e.Name] = e
	}
	return out
}
