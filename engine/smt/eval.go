package smt

import (
	"fmt"
	"math/big"
)

// Eval evaluates a quantifier-free scalar term under a model (variable ID ->
// constant). Variables without a value default to zero/false. Array terms are
// evaluated lazily through select-over-store; unconstrained array reads give 0.
// It returns nil if the term cannot be evaluated.
func Eval(t *Term, model map[int]*Term) *Term {
	cache := map[int]*Term{}
	var ev func(t *Term) *Term
	var sel func(a *Term, i *Term) *Term
	sel = func(a *Term, i *Term) *Term {
		switch a.Op {
		case "store":
			j := ev(a.Args[1])
			if j != nil && j == i {
				return ev(a.Args[2])
			}
			return sel(a.Args[0], i)
		case "constarray":
			return ev(a.Args[0])
		case "ite":
			c := ev(a.Args[0])
			if c == nil {
				return nil
			}
			if c.IsTrue() {
				return sel(a.Args[1], i)
			}
			return sel(a.Args[2], i)
		case "var":
			// look for an explicit point value: model may contain
			// select(var, const) terms keyed by their ID
			s := Select(a, i)
			if v, ok := model[s.ID]; ok {
				return v
			}
			return zeroOf(a.S.Elem)
		}
		return nil
	}
	ev = func(t *Term) *Term {
		if t.IsConst() {
			return t
		}
		if r, ok := cache[t.ID]; ok {
			return r
		}
		var r *Term
		switch t.Op {
		case "var", "bound":
			if v, ok := model[t.ID]; ok {
				r = v
			} else if t.S.K != KArray {
				r = zeroOf(t.S)
			}
		case "select":
			i := ev(t.Args[1])
			if i != nil {
				if v, ok := model[Select(t.Args[0], i).ID]; ok {
					r = v
				} else if v, ok := model[t.ID]; ok {
					r = v
				} else {
					r = sel(t.Args[0], i)
				}
			}
		case "app", "forall", "exists", "store", "constarray":
			if v, ok := model[t.ID]; ok {
				r = v
			}
		case "ite":
			c := ev(t.Args[0])
			if c != nil {
				if c.IsTrue() {
					r = ev(t.Args[1])
				} else {
					r = ev(t.Args[2])
				}
			}
		case "and":
			r = True
			for _, a := range t.Args {
				v := ev(a)
				if v == nil {
					r = nil
					break
				}
				if v.IsFalse() {
					r = False
					break
				}
			}
		case "or":
			r = False
			for _, a := range t.Args {
				v := ev(a)
				if v == nil {
					r = nil
					break
				}
				if v.IsTrue() {
					r = True
					break
				}
			}
		default:
			args := make([]*Term, len(t.Args))
			ok := true
			for i, a := range t.Args {
				args[i] = ev(a)
				if args[i] == nil {
					ok = false
					break
				}
			}
			if ok {
				x := Rebuild(t, args)
				if x.IsConst() {
					r = x
				}
			}
		}
		cache[t.ID] = r
		return r
	}
	return ev(t)
}

func zeroOf(s *Sort) *Term {
	switch s.K {
	case KBool:
		return False
	case KBV:
		return BVC(big.NewInt(0), s.W)
	case KInt:
		return IntC(0)
	}
	return nil
}

// topBit returns (x, t) such that the most significant bit of e is bit t of x.
func topBit(e *Term) (*Term, int) {
	switch e.Op {
	case "extract":
		return e.Args[0], e.P[0]
	case "sign_extend":
		return topBit(e.Args[0])
	}
	return e, e.S.W - 1
}

// replicatedBit reports whether e consists only of copies of bit t of x.
func replicatedBit(e *Term) (*Term, int, bool) {
	switch {
	case e.Op == "extract" && e.P[0] == e.P[1]:
		return e.Args[0], e.P[0], true
	case e.Op == "sign_extend" && e.Args[0].S.W == 1:
		x, t := topBit(e.Args[0])
		return x, t, true
	case e.S.W == 1 && e.Op != "bvconst":
		return e, 0, true
	}
	return nil, 0, false
}

// AbstractArith replaces every multiplication and unsigned division of two
// non-constant operands by applications of the uninterpreted symbols umulN /
// udivN (the same symbols on both sides of an equation: a sound abstraction;
// ground axioms about them are added by package vc). Division keeps its
// all-ones result on a zero divisor.
func AbstractArith(t *Term) *Term {
	memo := map[int]*Term{}
	var walk func(t *Term) *Term
	walk = func(t *Term) *Term {
		if r, ok := memo[t.ID]; ok {
			return r
		}
		var r *Term
		if len(t.Args) == 0 {
			r = t
		} else {
			na := make([]*Term, len(t.Args))
			changed := false
			for i, a := range t.Args {
				na[i] = walk(a)
				if na[i] != a {
					changed = true
				}
			}
			r = t
			if changed {
				r = Rebuild(t, na)
			}
			switch r.Op {
			case "bvmul":
				x, y := r.Args[0], r.Args[1]
				if !x.IsConst() && !y.IsConst() {
					if x.ID > y.ID {
						x, y = y, x
					}
					r = AppC(fmt.Sprintf("umul%d", r.S.W), r.S, x, y)
				}
			case "bvudiv":
				x, y := r.Args[0], r.Args[1]
				if !y.IsConst() {
					w := r.S.W
					r = Ite(Eq(y, BVU(0, w)), BVNot(BVU(0, w)), App(fmt.Sprintf("udiv%d", w), r.S, x, y))
				}
			}
		}
		memo[t.ID] = r
		return r
	}
	return walk(t)
}
