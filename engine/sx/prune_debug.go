package sx

import (
	"fmt"
	"os"

	"gocv/smt"
)

var checkPrune = os.Getenv("GOCV_CHECKPRUNE") != ""

// debugPrune cross-checks a pruning verdict with the SMT solver.
func debugPrune(lits []*smt.Term) {
	if !checkPrune {
		return
	}
	q := &smt.Query{Name: "prunecheck", Hyps: lits}
	r := smt.Solve(q, 10)
	if r.Status == "sat" {
		fmt.Println("UNSOUND PRUNE: literals are satisfiable:")
		for _, l := range lits {
			fmt.Println("   ", l)
		}
	}
}
