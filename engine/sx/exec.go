package sx

import (
	"time"
	"os"
	"fmt"
	"go/constant"
	"go/token"
	"math/big"
	"sort"
	"strings"
	"sync"

	"gocv/smt"

	"golang.org/x/tools/go/ssa"
)

// Intrinsic models a function without interpreting its body.
type Intrinsic func(p *Path, call *ssa.CallCommon, args []Val) Val

// Machine holds the loaded program and the heap produced by the package
// initialisers.
type Machine struct {
	Prog      *ssa.Program
	Intr      map[string]Intrinsic
	BaseHeap  map[int]Val
	BaseNext  int
	Globals   map[*ssa.Global]int
	MaxSteps  int
	LoopBound int
	// LoopBounds overrides LoopBound per loop: key "<FuncName>#<ordinal>"
	// (loops numbered in source order from 1); the value is the number of
	// iterations allowed.
	LoopBounds map[string]int
	NoMerge   bool // disable if-conversion (debugging)
	// NoOrderPrune disables the order-literal contradiction test in Decide.
	NoOrderPrune bool
	// Concretize maps a named integer type ("pkgpath.Name") to the largest
	// value considered: conversions to it fork over the feasible values.
	Concretize map[string]int
	// SolveHyps decides satisfiability of a conjunction and, when
	// satisfiable, returns the value of want; it is installed by the verifier.
	SolveHyps func(hyps []*smt.Term, want *smt.Term) (val *smt.Term, sat bool, ok bool)
	// MaxExploreSecs bounds the wall time of one exploration (0: no bound).
	MaxExploreSecs int
	// Feasible decides satisfiability of a conjunction; installed by the verifier.
	Feasible func(hyps []*smt.Term) (sat bool, ok bool)
	// CallHook lets the verifier replace a call by the callee's contract.
	CallHook func(p *Path, fn *ssa.Function, args []Val, site ssa.Instruction) (Val, bool)
	// LoopHook is called on every arrival at a loop header that carries an
	// invariant; it returns true when the path must stop (back edge).
	LoopHook func(p *Path, fr *Frame, header *ssa.BasicBlock, first bool) bool

	siteNames map[ssa.Instruction]string
	loopHeads map[*ssa.Function]map[*ssa.BasicBlock]int
}

// Obl is a proof obligation recorded on a path: PC ⇒ Cond.
type Obl struct {
	Name string
	Kind string
	Cond *smt.Term
	PC   []*smt.Term
	Pos  string
	Note string
}

// Frame is an activation record.
type Frame struct {
	Fn     *ssa.Function
	Locals map[ssa.Value]Val
	Bind   []Val
	Params []Val
	Visits map[*ssa.BasicBlock]int
	Defers []func()
	Caller *Frame
	Depth  int
}

// Path is one execution path.
type Path struct {
	M        *Machine
	Heap     map[int]Val
	Next     int
	PC       []*smt.Term
	Obls     []Obl
	Dec      []bool
	dpos     int
	Steps    int
	freshN   int
	Ghost    map[string]Val
	Out      []Str // captured stdout writes
	OutFmt   []string // the literal formats of the fmt.Printf calls, in order
	NoSafety bool
	Trace    []string
	Depth    int
	// Prune, when set, is asked whether PC ∧ c is satisfiable before a new
	// decision is taken.
	Prune func(pc []*smt.Term, c *smt.Term) bool
	// PanicAllowed, when set, is the condition under which an explicit
	// panic is what the contract demands ("panics iff").
	PanicAllowed *smt.Term
}

// TraceCalls prints every interpreted call (debugging).
var TraceCalls = os.Getenv("GOCV_TRACECALLS") != ""

// IsPathEnd reports whether a recovered value is the end-of-path signal.
func IsPathEnd(r interface{}) (string, bool) {
	if e, ok := r.(pathEnd); ok {
		return e.reason, true
	}
	return "", false
}

// cacheMu guards the per-machine name caches (machines are shallow-copied per
// unit and explored in parallel; the caches are shared maps).
var cacheMu sync.Mutex

// Clone returns a shallow copy sharing program, base heap and caches.
func (m *Machine) Clone() *Machine {
	cacheMu.Lock()
	if m.siteNames == nil {
		m.siteNames = map[ssa.Instruction]string{}
	}
	if m.loopHeads == nil {
		m.loopHeads = map[*ssa.Function]map[*ssa.BasicBlock]int{}
	}
	cacheMu.Unlock()
	c := *m
	return &c
}

type pathEnd struct{ reason string }

// Stop ends the current path.
func (p *Path) Stop(reason string) { panic(pathEnd{reason}) }

// Fresh returns a fresh variable; names are deterministic along a path prefix.
func (p *Path) Fresh(prefix string, s *smt.Sort) *smt.Term {
	p.freshN++
	return smt.Var(fmt.Sprintf("%s!%d", prefix, p.freshN), s)
}

// Assume adds c to the path condition.
func (p *Path) Assume(c *smt.Term) {
	if c.IsTrue() {
		return
	}
	if c.IsFalse() {
		p.Stop("infeasible")
	}
	p.PC = append(p.PC, c)
}

// Assert records an obligation and continues under its assumption.
func (p *Path) Assert(name, kind string, c *smt.Term, pos string, note string) {
	if c.IsTrue() {
		// recorded as trivially discharged so that counts are stable
		p.Obls = append(p.Obls, Obl{Name: name, Kind: kind, Cond: c, Pos: pos, Note: note})
		return
	}
	pc := append([]*smt.Term{}, p.PC...)
	p.Obls = append(p.Obls, Obl{Name: name, Kind: kind, Cond: c, PC: pc, Pos: pos, Note: note})
	p.Assume(c)
}

// Decide forks on a condition.
func (p *Path) Decide(c *smt.Term) bool {
	if c.IsTrue() {
		return true
	}
	if c.IsFalse() {
		return false
	}
	nc := smt.Not(c)
	for _, h := range p.PC {
		if h == c {
			return true
		}
		if h == nc {
			return false
		}
	}
	// forced decisions are detected before the recorded prefix is consulted,
	// so that they never consume an entry of it (the test is deterministic)
	if !p.M.NoOrderPrune {
		// cheap certain-contradiction test on order literals
		tOK := !OrderUnsat(append(append([]*smt.Term{}, p.PC...), c))
		fOK := !OrderUnsat(append(append([]*smt.Term{}, p.PC...), nc))
		if !fOK {
			debugPrune(append(append([]*smt.Term{}, p.PC...), nc))
		}
		if !tOK {
			debugPrune(append(append([]*smt.Term{}, p.PC...), c))
		}
		if tOK && !fOK {
			p.PC = append(p.PC, c)
			return true
		}
		if fOK && !tOK {
			p.PC = append(p.PC, nc)
			return false
		}
		if !tOK && !fOK {
			p.Stop("infeasible")
		}
	}
	if p.dpos < len(p.Dec) {
		b := p.Dec[p.dpos]
		p.dpos++
		if b {
			p.Assume(c)
		} else {
			p.Assume(nc)
		}
		return b
	}
	if p.Prune != nil {
		t := p.Prune(p.PC, c)
		f := p.Prune(p.PC, nc)
		if t && !f {
			p.PC = append(p.PC, c)
			return true
		}
		if f && !t {
			p.PC = append(p.PC, nc)
			return false
		}
		if !t && !f {
			p.Stop("infeasible")
		}
	}
	p.Dec = append(p.Dec, true)
	p.dpos++
	p.Assume(c)
	return true
}

// PathResult is the outcome of one explored path.
type PathResult struct {
	Obls   []Obl
	PC     []*smt.Term
	Reason string // "" normal end
	Result Val
	Path   *Path
	Err    error
}

// Explore runs body on every path (depth-first over the decisions).
func (m *Machine) Explore(maxPaths int, setup func(p *Path), body func(p *Path) Val) ([]PathResult, error) {
	return m.ExploreFrom(m.BaseHeap, m.BaseNext, maxPaths, setup, body)
}

// Prepare runs f concretely (no forking allowed) on a copy of the base heap
// and returns the resulting heap, to be used as the start of an exploration.
func (m *Machine) Prepare(f func(p *Path)) (map[int]Val, int, error) {
	p := &Path{M: m, Heap: make(map[int]Val, len(m.BaseHeap)+64), Next: m.BaseNext, Ghost: map[string]Val{}, NoSafety: true}
	for k, v := range m.BaseHeap {
		p.Heap[k] = v
	}
	var err error
	func() {
		defer func() {
			if r := recover(); r != nil {
				switch e := r.(type) {
				case pathEnd:
					err = fmt.Errorf("preparation stopped: %s", e.reason)
				case Unsupported:
					err = e
				default:
					panic(r)
				}
			}
		}()
		f(p)
	}()
	if err == nil && len(p.Dec) > 0 {
		err = fmt.Errorf("preparation forked on symbolic data")
	}
	return p.Heap, p.Next, err
}

// ExploreFrom explores from an explicit initial heap.
func (m *Machine) ExploreFrom(base map[int]Val, baseNext int, maxPaths int, setup func(p *Path), body func(p *Path) Val) ([]PathResult, error) {
	var results []PathResult
	var prefix []bool
	started := time.Now()
	for {
		if m.MaxExploreSecs > 0 && time.Since(started) > time.Duration(m.MaxExploreSecs)*time.Second {
			return results, fmt.Errorf("exploration time limit of %d s reached after %d paths", m.MaxExploreSecs, len(results))
		}
		p := &Path{M: m, Heap: make(map[int]Val, len(base)+16), Next: baseNext, Ghost: map[string]Val{}}
		for k, v := range base {
			p.Heap[k] = v
		}
		p.Dec = append([]bool{}, prefix...)
		if setup != nil {
			setup(p)
		}
		res := PathResult{Path: p}
		func() {
			defer func() {
				if r := recover(); r != nil {
					switch e := r.(type) {
					case pathEnd:
						res.Reason = e.reason
					case Unsupported:
						res.Err = e
						res.Reason = "unsupported"
					default:
						panic(r)
					}
				}
			}()
			res.Result = body(p)
		}()
		res.Obls = p.Obls
		res.PC = p.PC
		results = append(results, res)
		if res.Err != nil {
			return results, res.Err
		}
		// next prefix: flip the last 'true'
		d := p.Dec
		i := len(d) - 1
		for i >= 0 && !d[i] {
			i--
		}
		if i < 0 {
			break
		}
		prefix = append(append([]bool{}, d[:i]...), false)
		if maxPaths > 0 && len(results) >= maxPaths {
			return results, fmt.Errorf("path limit %d reached", maxPaths)
		}
	}
	return results, nil
}

// ---------- heap ----------

func (p *Path) Alloc(v Val) int {
	p.Next++
	p.Heap[p.Next] = v
	return p.Next
}

func (p *Path) descend(v Val, path []PathElem, site string) Val {
	for _, e := range path {
		switch x := v.(type) {
		case *Struct:
			v = x.F[e.Field]
		case *Arr:
			v = p.arrGet(x, e.Idx, site)
		default:
			panic(unsupported(fmt.Sprintf("descend into %T", v)))
		}
	}
	return v
}

func (p *Path) update(v Val, path []PathElem, nv Val, site string) Val {
	if len(path) == 0 {
		return nv
	}
	e := path[0]
	switch x := v.(type) {
	case *Struct:
		f := append([]Val{}, x.F...)
		f[e.Field] = p.update(x.F[e.Field], path[1:], nv, site)
		return &Struct{F: f}
	case *Arr:
		if len(path) == 1 {
			return p.arrSet(x, e.Idx, nv, site)
		}
		old := p.arrGet(x, e.Idx, site)
		return p.arrSet(x, e.Idx, p.update(old, path[1:], nv, site), site)
	}
	panic(unsupported(fmt.Sprintf("update into %T", v)))
}

// arrGet reads element i (bounds are checked by the caller).
func (p *Path) arrGet(a *Arr, i *smt.Term, site string) Val {
	if a.Elems == nil {
		return p.symArrGet(a, i)
	}
	if k, ok := i.Uint64(); ok {
		if k >= uint64(len(a.Elems)) {
			// the bounds obligation of this access has been recorded (and
			// assumed) already: the path cannot continue
			p.Stop("out-of-bounds")
		}
		return a.Elems[k]
	}
	// symbolic index into a concrete array: ite chain for scalars, fork otherwise
	if len(a.Elems) == 0 {
		p.Stop("infeasible")
	}
	if _, ok := a.Elems[0].(*smt.Term); ok {
		r := a.Elems[len(a.Elems)-1].(*smt.Term)
		for k := len(a.Elems) - 2; k >= 0; k-- {
			r = smt.Ite(smt.Eq(i, i64(int64(k))), a.Elems[k].(*smt.Term), r)
		}
		return r
	}
	for k := range a.Elems {
		if k == len(a.Elems)-1 || p.Decide(smt.Eq(i, i64(int64(k)))) {
			p.Assume(smt.Eq(i, i64(int64(k))))
			return a.Elems[k]
		}
	}
	panic("unreachable")
}

func (p *Path) arrSet(a *Arr, i *smt.Term, v Val, site string) *Arr {
	if a.Elems == nil {
		return p.symArrSet(a, i, v)
	}
	if k, ok := i.Uint64(); ok {
		if k >= uint64(len(a.Elems)) {
			p.Stop("out-of-bounds")
		}
		e := append([]Val{}, a.Elems...)
		e[k] = v
		return &Arr{Elems: e, ElemT: a.ElemT}
	}
	if nt, ok := v.(*smt.Term); ok {
		e := make([]Val, len(a.Elems))
		for k := range e {
			e[k] = smt.Ite(smt.Eq(i, i64(int64(k))), nt, a.Elems[k].(*smt.Term))
		}
		return &Arr{Elems: e, ElemT: a.ElemT}
	}
	for k := range a.Elems {
		if k == len(a.Elems)-1 || p.Decide(smt.Eq(i, i64(int64(k)))) {
			p.Assume(smt.Eq(i, i64(int64(k))))
			e := append([]Val{}, a.Elems...)
			e[k] = v
			return &Arr{Elems: e, ElemT: a.ElemT}
		}
	}
	panic("unreachable")
}

func (p *Path) Load(ptr Ptr, site string) Val {
	if ptr.Obj == 0 {
		panic(unsupported("internal: load through nil at " + site))
	}
	return p.descend(p.Heap[ptr.Obj], ptr.Path, site)
}

func (p *Path) StoreTo(ptr Ptr, v Val, site string) {
	if ptr.Obj == 0 {
		panic(unsupported("internal: store through nil at " + site))
	}
	p.Heap[ptr.Obj] = p.update(p.Heap[ptr.Obj], ptr.Path, v, site)
}

// ---------- naming ----------

func (m *Machine) siteName(in ssa.Instruction, kind string) string {
	cacheMu.Lock()
	defer cacheMu.Unlock()
	if m.siteNames == nil {
		m.siteNames = map[ssa.Instruction]string{}
	}
	key := in
	if n, ok := m.siteNames[key]; ok {
		return n + "/" + kind
	}
	fn := in.Parent()
	// number every instruction by its order among those with a source
	// position, so names are stable under edits elsewhere in the file
	type item struct {
		in  ssa.Instruction
		pos token.Pos
		seq int
	}
	var items []item
	seq := 0
	for _, b := range fn.Blocks {
		for _, i := range b.Instrs {
			items = append(items, item{i, i.Pos(), seq})
			seq++
		}
	}
	sort.SliceStable(items, func(a, b int) bool {
		if items[a].pos != items[b].pos {
			return items[a].pos < items[b].pos
		}
		return items[a].seq < items[b].seq
	})
	cnt := map[string]int{}
	for _, it := range items {
		k := instrKind(it.in)
		cnt[k]++
		m.siteNames[it.in] = fmt.Sprintf("%s/%s%d", FuncName(fn), k, cnt[k])
	}
	return m.siteNames[key] + "/" + kind
}

func instrKind(in ssa.Instruction) string {
	switch in.(type) {
	case *ssa.IndexAddr, *ssa.Index:
		return "index"
	case *ssa.Lookup:
		return "lookup"
	case *ssa.Slice:
		return "slice"
	case *ssa.Panic:
		return "panic"
	case *ssa.TypeAssert:
		return "assert"
	case *ssa.Call:
		return "call"
	case *ssa.BinOp:
		return "binop"
	case *ssa.UnOp:
		return "unop"
	case *ssa.FieldAddr, *ssa.Field:
		return "field"
	case *ssa.Store:
		return "store"
	case *ssa.MapUpdate:
		return "mapupdate"
	case *ssa.MakeSlice:
		return "make"
	case *ssa.Return:
		return "return"
	case *ssa.If:
		return "if"
	}
	return "i"
}

// FuncName is the stable, receiver-qualified name used in contracts and
// obligation names: pkg.Func, pkg.(T).Method, pkg.Func[inst], pkg.Func$1.
func FuncName(fn *ssa.Function) string {
	s := fn.String()
	s = strings.ReplaceAll(s, "mltwist/internal/", "")
	s = strings.ReplaceAll(s, "mltwist/pkg/", "")
	s = strings.ReplaceAll(s, "mltwist/", "")
	return s
}

func (p *Path) posOf(in ssa.Instruction) string {
	pos := in.Pos()
	if pos == token.NoPos {
		if in.Parent() != nil {
			pos = in.Parent().Pos()
		}
	}
	ps := p.M.Prog.Fset.Position(pos)
	return fmt.Sprintf("%s:%d", strings.TrimPrefix(ps.Filename, "/repo/"), ps.Line)
}

func (p *Path) safety(in ssa.Instruction, kind string, c *smt.Term, note string) {
	if p.NoSafety {
		p.Assume(c)
		return
	}
	p.Assert(p.M.siteName(in, kind), kind, c, p.posOf(in), note)
}

// ---------- calls ----------

// Call invokes fn with args.
func (p *Path) Call(fn *ssa.Function, args []Val, bind []Val, site ssa.Instruction) Val {
	if p.M.CallHook != nil && site != nil {
		if r, ok := p.M.CallHook(p, fn, args, site); ok {
			return r
		}
	}
	name := fn.String()
	if fn.Origin() != nil {
		if in, ok := p.M.Intr[fn.Origin().String()]; ok {
			var cc *ssa.CallCommon
			if site != nil {
				if c, ok := site.(ssa.CallInstruction); ok {
					cc = c.Common()
				}
			}
			return in(p, cc, args)
		}
	}
	if in, ok := p.M.Intr[name]; ok {
		var cc *ssa.CallCommon
		if site != nil {
			if c, ok := site.(ssa.CallInstruction); ok {
				cc = c.Common()
			}
		}
		return in(p, cc, args)
	}
	if len(fn.Blocks) == 0 {
		panic(unsupported("call of external function without model: " + name))
	}
	if TraceCalls {
		fmt.Fprintf(os.Stderr, "%*scall %s (paths-dec=%d steps=%d)\n", p.Depth, "", name, len(p.Dec), p.Steps)
	}
	p.Depth++
	if p.Depth > 400 {
		panic(unsupported("call depth exceeded in " + name))
	}
	fr := &Frame{Fn: fn, Locals: map[ssa.Value]Val{}, Bind: bind, Params: args, Visits: map[*ssa.BasicBlock]int{}}
	for i, prm := range fn.Params {
		fr.Locals[prm] = args[i]
	}
	for i, fv := range fn.FreeVars {
		fr.Locals[fv] = bind[i]
	}
	r := p.run(fr)
	p.Depth--
	return r
}

// CallClosure calls a function value.
func (p *Path) CallClosure(c *Closure, args []Val, site ssa.Instruction) Val {
	if c == nil {
		panic(unsupported("internal: call of nil func"))
	}
	if c.Builtin != nil {
		return c.Builtin(p, args)
	}
	return p.Call(c.Fn, args, c.Bind, site)
}

func (p *Path) run(fr *Frame) Val {
	b := fr.Fn.Blocks[0]
	var prev *ssa.BasicBlock
	var merged map[*ssa.Phi]Val // phi values of the block being entered, when it was reached by if-conversion
	for {
		fr.Visits[b]++
		if p.M.LoopHook != nil {
			if p.M.isLoopHead(b) {
				if p.M.LoopHook(p, fr, b, prev == nil || !p.M.isBackEdge(prev, b)) {
					p.Stop("loop-cut")
				}
			}
		}
		if p.M.LoopBounds != nil && p.M.isLoopHead(b) {
			if lb, ok := p.M.LoopBounds[fmt.Sprintf("%s#%d", FuncName(fr.Fn), p.M.LoopOrdinal(b))]; ok && fr.Visits[b] > lb+1 {
				if len(b.Instrs) > 0 {
					p.Assert(FuncName(fr.Fn)+fmt.Sprintf("/loop%d/terminates-within-bound", p.M.LoopOrdinal(b)), "unwind", smt.False, p.posOf(b.Instrs[0]), fmt.Sprintf("more than %d iterations", lb))
				}
				p.Stop("unwind")
			}
		}
		if p.M.LoopBound > 0 && fr.Visits[b] > p.M.LoopBound+1 && p.M.isLoopHead(b) {
			// unwinding assertion
			if len(b.Instrs) > 0 {
				p.Assert(FuncName(fr.Fn)+fmt.Sprintf("/unwind%d", b.Index), "unwind", smt.False, p.posOf(b.Instrs[0]), fmt.Sprintf("loop bound %d", p.M.LoopBound))
			}
			p.Stop("unwind")
		}
		// phis first (parallel assignment)
		var phiVals []Val
		nphi := 0
		for _, in := range b.Instrs {
			ph, ok := in.(*ssa.Phi)
			if !ok {
				break
			}
			nphi++
			if merged != nil {
				phiVals = append(phiVals, merged[ph])
				continue
			}
			idx := -1
			for i, pb := range b.Preds {
				if pb == prev {
					idx = i
					break
				}
			}
			if idx < 0 {
				panic("phi without matching predecessor")
			}
			phiVals = append(phiVals, p.get(fr, ph.Edges[idx]))
		}
		for i := 0; i < nphi; i++ {
			fr.Locals[b.Instrs[i].(*ssa.Phi)] = phiVals[i]
		}
		merged = nil
		var next *ssa.BasicBlock
		for _, in := range b.Instrs[nphi:] {
			p.Steps++
			if p.M.MaxSteps > 0 && p.Steps > p.M.MaxSteps {
				panic(unsupported("step limit exceeded in " + fr.Fn.String()))
			}
			switch x := in.(type) {
			case *ssa.Jump:
				next = b.Succs[0]
			case *ssa.If:
				c := p.get(fr, x.Cond).(*smt.Term)
				if !c.IsConst() && !p.M.NoMerge {
					if mr, ok := p.mergeIf(fr, b, c, 0); ok {
						merged = mr.vals
						next = mr.join
						break
					}
				}
				if p.Decide(c) {
					next = b.Succs[0]
				} else {
					next = b.Succs[1]
				}
			case *ssa.Return:
				for i := len(fr.Defers) - 1; i >= 0; i-- {
					fr.Defers[i]()
				}
				fr.Defers = nil
				switch len(x.Results) {
				case 0:
					return nil
				case 1:
					return p.get(fr, x.Results[0])
				}
				t := make(Tuple, len(x.Results))
				for i, r := range x.Results {
					t[i] = p.get(fr, r)
				}
				return t
			case *ssa.Panic:
				v := p.get(fr, x.X)
				allowed := smt.False
				if p.PanicAllowed != nil {
					allowed = p.PanicAllowed
				}
				p.safety(in, "panic", allowed, "explicit panic: "+p.panicText(v))
				p.Stop("panic")
			case *ssa.RunDefers:
				for i := len(fr.Defers) - 1; i >= 0; i-- {
					fr.Defers[i]()
				}
				fr.Defers = nil
			default:
				p.exec(fr, in)
			}
		}
		if next == nil {
			panic("block without terminator")
		}
		prev, b = b, next
	}
}

// ---------- loop structure ----------

func (m *Machine) loopInfo(fn *ssa.Function) map[*ssa.BasicBlock]int {
	cacheMu.Lock()
	defer cacheMu.Unlock()
	if m.loopHeads == nil {
		m.loopHeads = map[*ssa.Function]map[*ssa.BasicBlock]int{}
	}
	if h, ok := m.loopHeads[fn]; ok {
		return h
	}
	heads := map[*ssa.BasicBlock]int{}
	for _, b := range fn.Blocks {
		for _, s := range b.Succs {
			if s.Dominates(b) {
				heads[s] = 0
			}
		}
	}
	// ordinal by source position of the header
	var hs []*ssa.BasicBlock
	for h := range heads {
		hs = append(hs, h)
	}
	sort.Slice(hs, func(i, j int) bool {
		pi, pj := blockPos(hs[i]), blockPos(hs[j])
		if pi != pj {
			return pi < pj
		}
		return hs[i].Index < hs[j].Index
	})
	for i, h := range hs {
		heads[h] = i + 1
	}
	m.loopHeads[fn] = heads
	return heads
}

func blockPos(b *ssa.BasicBlock) token.Pos {
	// the position of a loop is that of the earliest positioned
	// instruction in the loop header or its body's first block
	best := token.NoPos
	for _, in := range b.Instrs {
		if p := in.Pos(); p != token.NoPos && (best == token.NoPos || p < best) {
			best = p
		}
	}
	if best == token.NoPos {
		for _, s := range b.Succs {
			for _, in := range s.Instrs {
				if p := in.Pos(); p != token.NoPos && (best == token.NoPos || p < best) {
					best = p
				}
			}
		}
	}
	return best
}

func (m *Machine) isLoopHead(b *ssa.BasicBlock) bool {
	_, ok := m.loopInfo(b.Parent())[b]
	return ok
}

// LoopOrdinal returns the 1-based ordinal (source order) of the loop headed by b.
func (m *Machine) LoopOrdinal(b *ssa.BasicBlock) int { return m.loopInfo(b.Parent())[b] }

func (m *Machine) isBackEdge(from, to *ssa.BasicBlock) bool { return to.Dominates(from) }

// ---------- operand evaluation ----------

func (p *Path) get(fr *Frame, v ssa.Value) Val {
	switch x := v.(type) {
	case *ssa.Const:
		return p.constVal(x)
	case *ssa.Function:
		return &Closure{Fn: x}
	case *ssa.Global:
		id, ok := p.M.Globals[x]
		if !ok {
			panic(unsupported("global of uninitialised package: " + x.String()))
		}
		return Ptr{Obj: id}
	case *ssa.Builtin:
		return &Closure{Name: x.Name()}
	}
	r, ok := fr.Locals[v]
	if !ok {
		panic(fmt.Sprintf("internal: no value for %s = %s in %s", v.Name(), v.String(), fr.Fn))
	}
	return r
}

func (p *Path) constVal(c *ssa.Const) Val {
	t := c.Type()
	if c.Value == nil {
		return Zero(t)
	}
	if w, _, ok := isInt(t); ok {
		bi, ok := new(big.Int).SetString(c.Value.ExactString(), 10)
		if !ok {
			// could be a rune / other exact kinds
			if i, ok := constant.Int64Val(constant.ToInt(c.Value)); ok {
				return smt.BVI(i, w)
			}
			panic(unsupported("integer constant " + c.Value.ExactString()))
		}
		return smt.BVC(bi, w)
	}
	if isBool(t) {
		return smt.BoolC(constant.BoolVal(c.Value))
	}
	if isString(t) {
		return Str{S: constant.StringVal(c.Value)}
	}
	if isFloat(t) {
		f, _ := constant.Float64Val(c.Value)
		return Float{f}
	}
	panic(unsupported("constant of type " + t.String()))
}

func term(v Val) *smt.Term {
	t, ok := v.(*smt.Term)
	if !ok {
		panic(unsupported(fmt.Sprintf("expected scalar, got %T", v)))
	}
	return t
}

func (p *Path) panicText(v Val) string {
	if i, ok := v.(Iface); ok {
		if s, ok := i.V.(Str); ok {
			if s.Concrete() {
				return s.S
			}
			return "<formatted message>"
		}
		if i.T != nil && isErrorType(i.T) {
			defer func() { recover() }()
			s := p.ErrorString(i)
			if s.Concrete() {
				return s.S
			}
		}
	}
	return Show(v)
}
