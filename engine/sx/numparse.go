package sx

import (
	"gocv/smt"

	"golang.org/x/tools/go/ssa"
)

// Assumed contracts of the number parsers of the standard library
// (strconv.ParseUint, strconv.Atoi, (*big.Int).SetString, (*big.Int).Sign),
// over strings of concrete length with symbolic bytes. The grammar is the
// documented one; the value is computed in a bit-vector wide enough never to
// overflow, range errors are decided on that exact value.

// digitVal returns (value of the digit as a w-bit term, validity) in base.
func digitVal(b *smt.Term, base int, w int) (*smt.Term, *smt.Term) {
	in := func(lo, hi byte) *smt.Term {
		return smt.And(smt.BVUle(smt.BVU(uint64(lo), 8), b), smt.BVUle(b, smt.BVU(uint64(hi), 8)))
	}
	ext := func(t *smt.Term) *smt.Term { return smt.Resize(t, w) }
	if base <= 10 {
		return ext(smt.BVSub(b, smt.BVU('0', 8))), in('0', byte('0'+base-1))
	}
	dec := in('0', '9')
	lower := in('a', byte('a'+base-11))
	upper := in('A', byte('A'+base-11))
	v := smt.Ite(dec, smt.BVSub(b, smt.BVU('0', 8)), smt.Ite(lower, smt.BVSub(b, smt.BVU('a'-10, 8)), smt.BVSub(b, smt.BVU('A'-10, 8))))
	return ext(v), smt.Or(dec, lower, upper)
}

// parseDigits evaluates bs as digits of the base. With underscores allowed
// (base prefix syntax of Go), an underscore must separate two digits, or
// follow the base prefix and precede a digit. It forks on "is this byte an
// underscore" only when underscores are allowed.
func (p *Path) parseDigits(bs []*smt.Term, base int, underscores bool, afterPrefix bool) (val *smt.Term, valid *smt.Term) {
	w := 4*len(bs) + 8
	val = smt.BVU(0, w)
	valid = smt.BoolC(len(bs) > 0)
	prevDigit := afterPrefix // an underscore may directly follow the prefix
	nd := 0
	for i, b := range bs {
		if underscores {
			isU := smt.Eq(b, smt.BVU('_', 8))
			if !isU.IsFalse() && p.Decide(isU) {
				// must be preceded by a digit (or the prefix) and followed by a digit
				if !prevDigit || i+1 >= len(bs) {
					return val, smt.False
				}
				nx := smt.Eq(bs[i+1], smt.BVU('_', 8))
				if nx.IsTrue() {
					return val, smt.False
				}
				prevDigit = false
				continue
			}
		}
		d, ok := digitVal(b, base, w)
		valid = smt.And(valid, ok)
		val = smt.BVAdd(smt.BVMul(val, smt.BVU(uint64(base), w)), d)
		prevDigit = true
		nd++
	}
	if nd == 0 {
		return val, smt.False
	}
	if !prevDigit {
		return val, smt.False
	}
	return val, valid
}

func (p *Path) decideByte(b *smt.Term, chars ...byte) bool {
	var cs []*smt.Term
	for _, c := range chars {
		cs = append(cs, smt.Eq(b, smt.BVU(uint64(c), 8)))
	}
	return p.Decide(smt.Or(cs...))
}

func init() {
	extraIntrinsics = append(extraIntrinsics, func(m *Machine) {
		I := m.Intr
		strBytes := func(p *Path, v Val, what string) []*smt.Term {
			s := v.(Str)
			if s.Fmt != "" {
				if cs, ok := p.fmtConcrete(s); ok {
					s = Str{S: cs}
				}
			}
			bs, ok := s.byteTerms()
			if !ok {
				panic(unsupported(what + " of an unbounded symbolic string"))
			}
			return bs
		}
		I["strconv.ParseUint"] = func(p *Path, c *ssa.CallCommon, a []Val) Val {
			bs := strBytes(p, a[0], "strconv.ParseUint")
			base, ok1 := ConstInt(a[1])
			bits, ok2 := ConstInt(a[2])
			if !ok1 || !ok2 || base < 2 || base > 16 {
				panic(unsupported("strconv.ParseUint with symbolic or unmodelled base/bitSize"))
			}
			if bits == 0 {
				bits = 64
			}
			val, valid := p.parseDigits(bs, int(base), false, false)
			fits := smt.True
			if val.S.W > int(bits) {
				fits = smt.Eq(smt.Extract(val, val.S.W-1, int(bits)), smt.BVU(0, val.S.W-int(bits)))
			}
			if !p.Decide(valid) {
				return Tuple{i64(0), p.NewError(Str{S: "strconv.ParseUint: invalid syntax"}, Iface{})}
			}
			if !p.Decide(fits) {
				return Tuple{smt.BVC(smt.BVU(0, 64).C, 64), p.NewError(Str{S: "strconv.ParseUint: value out of range"}, Iface{})}
			}
			return Tuple{smt.Resize(val, 64), Iface{}}
		}
		I["strconv.Atoi"] = func(p *Path, c *ssa.CallCommon, a []Val) Val {
			bs := strBytes(p, a[0], "strconv.Atoi")
			if len(bs) == 0 {
				return Tuple{i64(0), p.NewError(Str{S: "strconv.Atoi: invalid syntax"}, Iface{})}
			}
			neg := false
			if p.decideByte(bs[0], '+', '-') {
				neg = p.Decide(smt.Eq(bs[0], smt.BVU('-', 8)))
				bs = bs[1:]
			}
			val, valid := p.parseDigits(bs, 10, false, false)
			if !p.Decide(valid) {
				return Tuple{i64(0), p.NewError(Str{S: "strconv.Atoi: invalid syntax"}, Iface{})}
			}
			w := val.S.W
			if w < 72 {
				val = smt.Resize(val, 72)
				w = 72
			}
			lim := smt.BVC(smt.BVU(1, w).C, w)
			lim = smt.BVShl(lim, smt.BVU(63, w)) // 2^63
			var fits *smt.Term
			if neg {
				fits = smt.BVUle(val, lim)
			} else {
				fits = smt.BVUlt(val, lim)
			}
			if !p.Decide(fits) {
				return Tuple{i64(0), p.NewError(Str{S: "strconv.Atoi: value out of range"}, Iface{})}
			}
			r := smt.Resize(val, 64)
			if neg {
				r = smt.BVNeg(r)
			}
			return Tuple{r, Iface{}}
		}
		I["(*math/big.Int).SetString"] = func(p *Path, c *ssa.CallCommon, a []Val) Val {
			bs := strBytes(p, a[1], "big.Int.SetString")
			base, ok := ConstInt(a[2])
			if !ok || base != 0 {
				panic(unsupported("big.Int.SetString with a base other than 0"))
			}
			fail := Tuple{Ptr{}, smt.False}
			neg := smt.False
			if len(bs) > 0 && p.decideByte(bs[0], '+', '-') {
				neg = smt.Eq(bs[0], smt.BVU('-', 8))
				bs = bs[1:]
			}
			if len(bs) == 0 {
				return fail
			}
			b := 10
			prefix := false
			if len(bs) >= 2 && p.Decide(smt.Eq(bs[0], smt.BVU('0', 8))) {
				switch {
				case p.decideByte(bs[1], 'x', 'X'):
					b, bs, prefix = 16, bs[2:], true
				case p.decideByte(bs[1], 'b', 'B'):
					b, bs, prefix = 2, bs[2:], true
				case p.decideByte(bs[1], 'o', 'O'):
					b, bs, prefix = 8, bs[2:], true
				default:
					// a leading 0 is the octal prefix; it counts as a digit
					b, bs, prefix = 8, bs[1:], true
				}
			}
			val, valid := p.parseDigits(bs, b, true, prefix)
			if !p.Decide(valid) {
				return fail
			}
			ptr := a[0].(Ptr)
			p.StoreTo(ptr, Opaque{Kind: "bigint", V: bigVal{T: val, Neg: smt.And(neg, smt.Not(smt.Eq(val, smt.BVU(0, val.S.W))))}}, "big")
			return Tuple{ptr, smt.True}
		}
		I["(*math/big.Int).Sign"] = func(p *Path, c *ssa.CallCommon, a []Val) Val {
			ptr := a[0].(Ptr)
			neg := smt.False
			var t *smt.Term
			switch v := p.Load(ptr, "big").(type) {
			case Opaque:
				bv := v.V.(bigVal)
				t = bv.T
				if bv.Neg != nil {
					neg = bv.Neg
				}
			default:
				return i64(0)
			}
			return smt.Ite(smt.Eq(t, smt.BVU(0, t.S.W)), i64(0), smt.Ite(neg, i64(-1), i64(1)))
		}
	})
}
