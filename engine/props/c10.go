package props

import (
	"sync"
	"fmt"
	"go/ast"
	"go/token"
	"go/types"
	"math/big"
	"strings"

	"golang.org/x/tools/go/ssa"

	"gocv/smt"
	"gocv/spec"
	"gocv/sx"
	"gocv/vc"
)

func (c *Ctx) installValueBuiltins(ev *spec.Eval) {
	B := ev.Builtins
	p := ev.P
	pk := c.P.SSA["mltwist/internal/exprtransform/internal/expreval"]
	valueT := pk.Type("Value").Type()
	// value(n): an expreval.Value of n arbitrary bytes
	B["value"] = func(ev *spec.Eval, a []ast.Expr) spec.TV {
		n := constArg(ev, a[0], "length")
		k := len(p.Ghost)
		p.Ghost[fmt.Sprintf("v%d", k)] = nil
		els := make([]sx.Val, n)
		for i := range els {
			els[i] = smt.Var(fmt.Sprintf("value%d.%d", k, i), smt.BV(8))
		}
		var sl sx.Val = sx.Slice{Off: smt.BVU(0, 64), Len: smt.BVU(0, 64), Cap: smt.BVU(0, 64)}
		if n > 0 {
			sl = p.NewSlice(types.Typ[types.Uint8], els)
		}
		return spec.TV{V: &sx.Struct{F: []sx.Val{sl}}, T: valueT}
	}
	// vext(v, w): value of v adapted to w bytes
	B["vext"] = func(ev *spec.Eval, a []ast.Expr) spec.TV {
		v := ev.Eval(a[0])
		w := int(constArg(ev, a[1], "width"))
		st, ok := v.V.(*sx.Struct)
		if !ok {
			panic(spec.EvalError{Msg: "vext of a non-Value"})
		}
		els := p.SliceElems(st.F[0].(sx.Slice))
		r := smt.BVU(0, 8*w)
		if len(els) > 0 {
			var t *smt.Term
			for _, b := range els {
				if t == nil {
					t = b.(*smt.Term)
				} else {
					t = smt.Concat(b.(*smt.Term), t)
				}
			}
			r = smt.Resize(smt.NormLow(t), 8*w)
		}
		return raw(r)
	}
}

func init() {
	register(&Prop{
		ID:        "C10",
		Level:     "proof",
		Technique: "contract-based deductive verification: postconditions of the constant-arithmetic functions against the bit-vector operators, loops unrolled at each enumerated width, math/big behind an assumed contract",
		MinObls:   200,
		Note:      "Every function of expreval is executed symbolically on operands of arbitrary byte values; the width and the operand lengths are enumerated, so every loop has a concrete bound and the obligations are quantifier-free bit-vector validities over all operand values. thorough enumerates every width 1..255.",
		Assumptions: []string{
			"math/big (SetBytes, Bytes, FillBytes, Mul, Div, Cmp, IsUint64, Uint64) behaves as documented: modelled by exact unbounded-width bit-vector arithmetic (sx/bigint.go)",
			"operand byte lengths: the VLENS set listed under enumerated_sets (operands shorter, equal and longer than the operation width)",
		},
		Build: func(c *Ctx) []*vc.Unit {
			if c.Tier == "thorough" {
				c.Sets["VLENS"] = []int64{0, 1, 2, 4, 8, 9, 16}
			} else {
				c.Sets["VLENS"] = []int64{0, 1, 2, 4, 9}
				c.Sets["WIDTHS"] = []int64{1, 2, 3, 4, 8, 9 + c.Seed%4}
				c.Sets["WIDTHS0"] = append([]int64{0}, c.Sets["WIDTHS"]...)
			}
			var units []*vc.Unit
			pre := "exprtransform/internal/expreval."
			for _, f := range []string{"Add", "Lsh", "Rsh", "Mul", "Div", "Nand", "Ltu", "ParseConst", "revertBytes"} {
				units = append(units, c.ContractUnits(pre+f, func(us *UnitSpec) {
					us.Setup = func(p *sx.Path, ev *spec.Eval) {}
					n1, h1 := us.Enum["n1"]
					n2, h2 := us.Enum["n2"]
					w := us.Enum["w"]
					if h1 && h2 && c.Tier == "thorough" && w > 16 && !(n1 == n2) {
						// mixed operand lengths are enumerated for widths up to 16;
						// above, both operands have the same length
						us.Skip = true
					}
					if h1 && h2 && c.Tier != "thorough" && n1 != n2 && w > 4 {
						us.Skip = true
					}
				})...)
			}
			for _, f := range []string{"(exprtransform/internal/expreval.Value).setWidth", "(exprtransform/internal/expreval.Value).clone"} {
				units = append(units, c.ContractUnits(f, nil)...)
			}
			return units
		},
	})
}

// valueHook replaces calls of the constant-arithmetic functions of expreval
// by their contracts (property C10): the contract is an equation
// "vext(result, w) == RHS" (or "result == RHS" for Ltu), so the result is
// constructed from the specification term directly.
func (c *Ctx) valueHook(p *sx.Path, fn *ssa.Function, args []sx.Val, site ssa.Instruction) (sx.Val, bool) {
	name := sx.FuncName(fn)
	if strings.HasPrefix(name, "expr.ConstUint[") {
		return c.constUintByContract(p, fn, args)
	}
	const pre = "exprtransform/internal/expreval."
	if !strings.HasPrefix(name, pre) {
		return nil, false
	}
	switch strings.TrimPrefix(name, pre) {
	case "Add", "Lsh", "Rsh", "Mul", "Div", "Nand", "Ltu":
	default:
		return nil, false
	}
	ct, ok := c.Contracts[name]
	if !ok {
		return nil, false
	}
	wv, ok := sx.ConstInt(args[2])
	if !ok {
		return nil, false
	}
	var pkg *types.Package
	if fn.Pkg != nil {
		pkg = fn.Pkg.Pkg
	}
	ev := c.NewEval(p, pkg)
	for i, prm := range fn.Params {
		ev.Vars[prm.Name()] = spec.TV{V: args[i], T: prm.Type()}
	}
	ev.Vars["w"] = spec.TV{V: big.NewInt(wv)}
	for _, e := range ct.Ensures {
		be, ok := e.Expr.(*ast.BinaryExpr)
		if !ok || be.Op != token.EQL {
			continue
		}
		if id, ok := be.X.(*ast.Ident); ok && id.Name == "result" {
			return ev.Eval(be.Y).V, true
		}
		call, ok := be.X.(*ast.CallExpr)
		if !ok {
			continue
		}
		if id, ok := call.Fun.(*ast.Ident); !ok || id.Name != "vext" {
			continue
		}
		rhs := ev.Term(ev.Eval(be.Y))
		if rhs.S.W != int(8*wv) {
			return nil, false
		}
		var els []sx.Val
		for i := 0; i < int(wv); i++ {
			els = append(els, smt.Extract(rhs, 8*i+7, 8*i))
		}
		var sl sx.Val = sx.Slice{Off: smt.BVU(0, 64), Len: smt.BVU(0, 64), Cap: smt.BVU(0, 64)}
		if wv > 0 {
			sl = p.NewSlice(types.Typ[types.Uint8], els)
		}
		return &sx.Struct{F: []sx.Val{sl}}, true
	}
	return nil, false
}

var inlinedMu sync.Mutex

// constUintByContract is the contract of expr.ConstUint (pkg/expr/
// contracts_verif.go, proved for every integer type and constant length
// under property C27) in executable form: the result is the little-endian
// value of the low sizeof(T) bytes, and it fits iff every higher byte is zero.
func (c *Ctx) constUintByContract(p *sx.Path, fn *ssa.Function, args []sx.Val) (sx.Val, bool) {
	st, ok := args[0].(*sx.Struct)
	if !ok {
		return nil, false
	}
	sl, ok := st.F[0].(sx.Slice)
	if !ok {
		return nil, false
	}
	n, okn := sl.Len.Uint64()
	if !okn || n == 0 || sl.Obj == 0 {
		return nil, false
	}
	if _, ok := c.Contracts["expr.ConstUint"]; !ok {
		return nil, false
	}
	rt := fn.Signature.Results().At(0).Type()
	bits := sx.SortOf(rt).W
	size := bits / 8
	els := p.SliceElems(sl)
	var val *smt.Term
	fits := smt.True
	for i, e := range els {
		b := e.(*smt.Term)
		if i < size {
			if val == nil {
				val = b
			} else {
				val = smt.Concat(b, val)
			}
		} else {
			fits = smt.And(fits, smt.Eq(b, smt.BVU(0, 8)))
		}
	}
	inlinedMu.Lock()
	c.Inlined["contract of expr.ConstUint (C27) at call sites"] = true
	inlinedMu.Unlock()
	return sx.Tuple{smt.Resize(val, bits), fits}, true
}
