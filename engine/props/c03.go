package props

import (
	"fmt"
	"go/ast"
	"go/types"
	"sort"
	"strconv"
	"strings"

	"gocv/ir"
	"gocv/rv"
	"gocv/smt"
	"gocv/spec"
	"gocv/sx"
	"gocv/vc"

	"golang.org/x/tools/go/ssa"
)

// C03 / C04: one emulator step from an arbitrary state that is in the
// simulation relation with a reference RISC-V machine.
//
// The code model holds one RV64IMA instruction (a concrete word per table
// entry and field pattern) built through the real front end (riscv.NewParser,
// parser.Parse, deps.NewCode). The machine state is arbitrary: the reference
// machine has symbolic register, CSR and memory arrays X0, CSR0, MEM0; the
// emulator knows an arbitrary set of memory bytes (a symbolic set K) and a
// chosen subset of the registers, each with the reference machine's value;
// everything it does not know is what the state provider will answer (the
// reference value). After Step the emulator's registers, memory and
// instruction pointer are compared with the reference machine's next state
// (rv/ref.go), and the step report with the accesses of the lifted effects.
//
// The program memory of the emulator (the tool's Overlay of Bytes and Sparse)
// is behind the contract of the memory.Memory interface (properties C14-C16):
// an abstract byte array plus the set of known bytes.

type emuWorld struct {
	c       *Ctx
	p       *sx.Path
	ref     *rvState
	word    uint32
	name    string
	kmode   int                  // 0: nothing known, 1: a pattern per address, 2: everything
	bases   []*smt.Term          // variant 1: accessed addresses ...
	pats    []int                // ... and the pattern of known bytes chosen for each
	arr     *smt.Term // current memory contents (abstract memory)
	stored  []storedRange // ranges written during the step (known since)
	regs0   map[string]bool
	memObj  int
	emu     sx.Ptr
	state   sx.Ptr
	asked   []string
	effects sx.Val
	pre     *ir.Env
}

func concreteKeyClass(k string) (string, uint64) {
	if k == ipKey {
		return "ip", 0
	}
	if strings.HasPrefix(k, "csr") {
		// the lifter numbers CSR keys by the sign-extended 12-bit field
		// (an injective renaming, see C01): the CSR is the low 12 bits
		if n, err := strconv.ParseUint(k[3:], 10, 64); err == nil && n < 65536 {
			return "csr", n & 0xfff
		}
	}
	if strings.HasPrefix(k, "x") {
		if n, err := strconv.ParseUint(k[1:], 10, 64); err == nil && n >= 1 && n < 32 {
			return "x", n
		}
	}
	return "", 0
}

// refReg: the reference machine's value of a register key in state (X, CSR, pc).
func refReg(k string, X, CSR, pc *smt.Term) (*smt.Term, bool) {
	cl, n := concreteKeyClass(k)
	switch cl {
	case "x":
		return smt.Select(X, smt.BVU(n, 5)), true
	case "csr":
		return smt.Select(CSR, smt.BVU(n, 12)), true
	case "ip":
		return pc, true
	}
	return nil, false
}

type storedRange struct {
	addr *smt.Term
	n    int
}

// known0: the byte at x is known before the step. Variant 0: no byte is;
// variant 2: every byte is; variant 1: for every address the step accesses
// (registered by touch) one of six patterns of known bytes in the 16-byte
// window at that address is chosen by a fork: none, all, offsets >= 2,
// offsets < 2, offsets 1..2, offset 1 only; bytes outside the windows are
// unknown.
func (w *emuWorld) known0(x *smt.Term) *smt.Term {
	switch w.kmode {
	case 0:
		return smt.False
	case 2:
		return smt.True
	}
	c := smt.False
	for i, b := range w.bases {
		d := smt.BVSub(x, b)
		in := smt.BVUlt(d, smt.BVU(16, 64))
		var pt *smt.Term
		switch w.pats[i] {
		case 0:
			pt = smt.False
		case 1:
			pt = smt.True
		case 2:
			pt = smt.BVUle(smt.BVU(2, 64), d)
		case 3:
			pt = smt.BVUlt(d, smt.BVU(2, 64))
		case 4:
			pt = smt.And(smt.BVUle(smt.BVU(1, 64), d), smt.BVUlt(d, smt.BVU(3, 64)))
		default:
			pt = smt.Eq(d, smt.BVU(1, 64))
		}
		c = smt.Or(c, smt.And(in, pt))
	}
	return c
}

// touch registers an accessed address and chooses its pattern of known bytes.
func (w *emuWorld) touch(addr *smt.Term) {
	if w.kmode != 1 {
		return
	}
	for _, b := range w.bases {
		if b == addr {
			return
		}
	}
	pat := 5
	for k := 0; k < 5; k++ {
		if w.p.Decide(smt.Var(fmt.Sprintf("K0.pattern%d.is%d", len(w.bases), k), smt.Bool)) {
			pat = k
			break
		}
	}
	w.bases = append(w.bases, addr)
	w.pats = append(w.pats, pat)
}

// knownAt: the byte at x is known now (initially known, or stored since).
func (w *emuWorld) knownAt(x *smt.Term) *smt.Term {
	c := w.known0(x)
	for _, r := range w.stored {
		c = smt.Or(c, smt.And(smt.BVUle(r.addr, x), smt.BVUlt(x, smt.BVAdd(r.addr, smt.BVU(uint64(r.n), 64)))))
	}
	return c
}

func (w *emuWorld) preEnv() *ir.Env {
	return &ir.Env{
		BigLimit: 0,
		Reg: func(key sx.Str, n int) *smt.Term {
			v, ok := refReg(key.S, w.ref.X, w.ref.CSR, w.ref.PC)
			if !ok {
				panic(sx.Unsupported{Msg: "lifted effects read the unknown register " + key.S})
			}
			return smt.Resize(v, 8*n)
		},
		Mem: func(key sx.Str, addr *smt.Term, n int) *smt.Term {
			var r *smt.Term
			for i := 0; i < n; i++ {
				b := smt.Select(w.ref.MEM, smt.BVAdd(addr, smt.BVU(uint64(i), 64)))
				if r == nil {
					r = b
				} else {
					r = smt.Concat(b, r)
				}
			}
			return r
		},
	}
}

func (w *emuWorld) constOf(t *smt.Term, n int) sx.Val {
	t = smt.Resize(t, 8*n)
	bs := make([]*smt.Term, n)
	for i := range bs {
		bs[i] = smt.Extract(t, 8*i+7, 8*i)
	}
	v := w.c.IR.MkConst(w.p, bs).(sx.Iface)
	return v.V // expr.Const as a struct value
}

// hook: the abstract memory, the state provider, constant arithmetic contracts
func (w *emuWorld) hook(p *sx.Path, fn *ssa.Function, args []sx.Val, site ssa.Instruction) (sx.Val, bool) {
	c := w.c
	if r, ok := c.valueHook(p, fn, args, site); ok {
		return r, true
	}
	name := sx.FuncName(fn)
	mapT := c.pkgType("mltwist/internal/state/interval", "Map")
	_ = mapT
	switch name {
	case "(*consoleui/emulate.stateProvider).Register":
		key := args[1].(sx.Str).S
		n, _ := sx.ConstInt(args[2])
		v, ok := refReg(key, w.ref.X, w.ref.CSR, w.ref.PC)
		if !ok {
			panic(sx.Unsupported{Msg: "provider asked for unknown register " + key})
		}
		// C04: only unknown state, only once
		regs := w.regMapKeys()
		p.Assert("emulator/provider/register-asked-only-when-unknown", "post", smt.BoolC(!regs[key]), "", "the state provider is asked for register "+key+" although the emulator already knows it")
		dup := false
		for _, a := range w.asked {
			if a == "reg:"+key {
				dup = true
			}
		}
		p.Assert("emulator/provider/register-asked-at-most-once", "post", smt.BoolC(!dup), "", "the state provider is asked twice for register "+key)
		w.asked = append(w.asked, "reg:"+key)
		return sx.Iface{T: c.IR.Const, V: w.constOf(v, int(n))}.V, true
	case "(*consoleui/emulate.stateProvider).Memory":
		addr := args[2].(*smt.Term)
		n, _ := sx.ConstInt(args[3])
		unknown := smt.True
		for i := int64(0); i < n; i++ {
			unknown = smt.And(unknown, smt.Not(w.knownAt(smt.BVAdd(addr, smt.BVU(uint64(i), 64)))))
		}
		p.Assert("emulator/provider/memory-asked-only-when-unknown", "post", unknown, "", "the state provider is asked for memory bytes the emulator already knows")
		var t *smt.Term
		for i := int64(0); i < n; i++ {
			b := smt.Select(w.ref.MEM, smt.BVAdd(addr, smt.BVU(uint64(i), 64)))
			if t == nil {
				t = b
			} else {
				t = smt.Concat(b, t)
			}
		}
		return w.constOf(t, int(n)), true
	}
	if !strings.HasPrefix(name, "(*state/memory.Overlay).") {
		return nil, false
	}
	recv, ok := args[0].(sx.Ptr)
	if !ok || recv.Obj != w.memObj {
		return nil, false
	}
	at := func(a *smt.Term, i int64) *smt.Term { return smt.BVAdd(a, smt.BVU(uint64(i), 64)) }
	switch strings.TrimPrefix(name, "(*state/memory.Overlay).") {
	case "Load":
		addr := args[1].(*smt.Term)
		n, _ := sx.ConstInt(args[2])
		w.touch(addr)
		p.Assert("emulator/memory-access-within-address-space", "pre", nowrapTerm(addr, int(n)), "", "precondition of the memory contract (C14-C16): the accessed range does not wrap around 2^64")
		all := smt.True
		for i := int64(0); i < n; i++ {
			all = smt.And(all, w.knownAt(at(addr, i)))
		}
		if !p.Decide(all) {
			return sx.Tuple{sx.Iface{}, smt.False}, true
		}
		var t *smt.Term
		for i := int64(0); i < n; i++ {
			b := smt.Select(w.arr, at(addr, i))
			if t == nil {
				t = b
			} else {
				t = smt.Concat(b, t)
			}
		}
		cv := sx.Iface{T: c.IR.Const, V: w.constOf(t, int(n))}
		// the contract promises an expression with this value, not a
		// constant node: bytes written by different stores come back
		// as a composition of shifted pieces
		// (a caller that copes with a composed expression copes with a
		// plain constant: the composed form is the general case)
		zero := c.IR.MkConst(p, []*smt.Term{smt.BVU(0, 8)})
		return sx.Tuple{sx.Iface{T: c.IR.Binary, V: &sx.Struct{F: []sx.Val{smt.BVU(1, 8), cv, zero, smt.BVU(uint64(n), 8)}}}, smt.True}, true
	case "Store":
		addr := args[1].(*smt.Term)
		n, _ := sx.ConstInt(args[3])
		w.touch(addr)
		p.Assert("emulator/memory-access-within-address-space", "pre", nowrapTerm(addr, int(n)), "", "precondition of the memory contract (C14-C16): the accessed range does not wrap around 2^64")
		d := &ir.Den{T: c.IR, P: p, Env: w.preEnv()}
		val := smt.Resize(d.Expr(args[2]), int(8*n))
		for i := int64(0); i < n; i++ {
			w.arr = smt.Store(w.arr, at(addr, i), smt.Extract(val, int(8*i+7), int(8*i)))
		}
		w.stored = append(w.stored, storedRange{addr, int(n)})
		return nil, true
	case "Missing":
		addr := args[1].(*smt.Term)
		n, _ := sx.ConstInt(args[2])
		w.touch(addr)
		p.Assert("emulator/memory-access-within-address-space", "pre", nowrapTerm(addr, int(n)), "", "precondition of the memory contract (C14-C16): the accessed range does not wrap around 2^64")
		// the maximal runs of unknown bytes (decided byte by byte)
		imT := fn.Signature.Results().At(0).Type()
		ivT := imT.Underlying().(*types.Struct).Field(0).Type().Underlying().(*types.Slice).Elem()
		var ivs []sx.Val
		addIv := func(from, to int64) {
			ivs = append(ivs, &sx.Struct{F: []sx.Val{at(addr, from), at(addr, to)}})
		}
		start := int64(-1)
		for i := int64(0); i <= n; i++ {
			unk := false
			if i < n {
				unk = !p.Decide(w.knownAt(at(addr, i)))
			}
			if unk && start < 0 {
				start = i
			}
			if !unk && start >= 0 {
				addIv(start, i)
				start = -1
			}
		}
		ms := sx.Zero(imT).(*sx.Struct)
		if len(ivs) > 0 {
			ms.F[0] = p.NewSlice(ivT, ivs)
		}
		return ms, true
	}
	panic(sx.Unsupported{Msg: "abstract memory: unmodelled method " + name})
}

func (w *emuWorld) regMapKeys() map[string]bool {
	c, p := w.c, w.p
	stT := c.pkgType("mltwist/internal/state", "State")
	rmT := c.pkgType("mltwist/internal/state", "RegMap")
	st := p.Load(w.state, "state").(*sx.Struct)
	rm := p.Load(st.F[fieldIdx(stT, "Regs")].(sx.Ptr), "regmap").(*sx.Struct)
	mr := rm.F[fieldIdx(rmT, "m")].(sx.MapRef)
	out := map[string]bool{}
	mv := p.Heap[mr.Obj].(*sx.MapVal)
	for _, k := range mv.Keys {
		out[k.(sx.Str).S] = true
	}
	return out
}

func (w *emuWorld) regMap() map[string]sx.Val {
	c, p := w.c, w.p
	stT := c.pkgType("mltwist/internal/state", "State")
	rmT := c.pkgType("mltwist/internal/state", "RegMap")
	st := p.Load(w.state, "state").(*sx.Struct)
	rm := p.Load(st.F[fieldIdx(stT, "Regs")].(sx.Ptr), "regmap").(*sx.Struct)
	mr := rm.F[fieldIdx(rmT, "m")].(sx.MapRef)
	out := map[string]sx.Val{}
	mv := p.Heap[mr.Obj].(*sx.MapVal)
	for i, k := range mv.Keys {
		out[k.(sx.Str).S] = mv.Vals[i]
	}
	return out
}

// emuWords: the concrete words of the corpus for one table entry: the opcode
// bits of the entry, the register fields and the remaining bits from patterns.
func emuWords(e rvEntry, tier string) []uint32 {
	pats := []uint32{
		1<<7 | 2<<15 | 3<<20 | 0x5a<<25,  // rd=x1 rs1=x2 rs2=x3, immediate bits 0x5a.
		1<<7 | 1<<15 | 2<<20 | 0x7f<<25,  // rd = rs1, high immediate bits set (negative immediates)
		0<<7 | 2<<15 | 0<<20 | 0x01<<25,  // rd = x0, rs2 = x0
	}
	if tier == "thorough" {
		pats = append(pats, 3<<7|0<<15|3<<20|0x2b<<25, 31<<7|31<<15|31<<20|0x40<<25|7<<12)
	}
	switch e.Name {
	case "beq", "bne", "blt", "bge", "bltu", "bgeu":
		// the branch target must be an instruction of the one-instruction
		// program: offset 0
		pats = []uint32{2<<15 | 3<<20, 1<<15 | 1<<20, 0<<15 | 2<<20}
	case "jal":
		pats = []uint32{1 << 7, 0 << 7}
	}
	var out []uint32
	seen := map[uint32]bool{}
	for _, p := range pats {
		w := e.Match | (p &^ e.Mask)
		if !seen[w] {
			seen[w] = true
			out = append(out, w)
		}
	}
	return out
}

// emuPrep is the concrete part of a unit's world, built once per unit: the
// code model of the instruction word through the real front end.
type emuPrep struct {
	word    uint32
	code    sx.Ptr
	effects sx.Val
}

func (c *Ctx) prepareEmuCode(p *sx.Path, word uint32, name string) *emuPrep {
	memT := c.pkgType("mltwist/internal/elf", "Memory")
	blkT := c.pkgType("mltwist/internal/elf", "Block")
	bs := make([]sx.Val, 4)
	for i := range bs {
		bs[i] = smt.BVU(uint64(word>>(8*uint(i)))&0xff, 8)
	}
	blk := sx.Zero(blkT).(*sx.Struct)
	blk.F[fieldIdx(blkT, "begin")] = smt.BVU(0x1000, 64)
	blk.F[fieldIdx(blkT, "bytes")] = p.NewSlice(types.Typ[types.Uint8], bs)
	ms := sx.Zero(memT).(*sx.Struct)
	ms.F[fieldIdx(memT, "Blocks")] = p.NewSlice(blkT, []sx.Val{blk})
	extT := c.pkgType("mltwist/internal/riscv", "Extension")
	parser := p.Call(c.Func("riscv.NewParser"), []sx.Val{smt.BVU(1, 8), p.NewSlice(extT, []sx.Val{smt.BVU(1, 8), smt.BVU(2, 8)})}, nil, nil)
	parserT := c.pkgType("mltwist/internal/riscv", "Parser")
	r := p.Call(c.Func("parser.Parse"), []sx.Val{sx.Ptr{Obj: p.Alloc(ms)}, sx.Iface{T: parserT, V: parser}}, nil, nil).(sx.Tuple)
	if er := r[1].(sx.Iface); er.T != nil {
		panic(fmt.Sprintf("the front end rejects the word %08x of %s", word, name))
	}
	cr := p.Call(c.Func("deps.NewCode"), []sx.Val{smt.BVU(0x1000, 64), r[0]}, nil, nil).(sx.Tuple)
	if er := cr[1].(sx.Iface); er.T != nil {
		panic("NewCode rejects the one-instruction program")
	}
	ct := c.pkgType("mltwist/internal/deps", "Code")
	bt := c.pkgType("mltwist/internal/deps", "block")
	it := c.pkgType("mltwist/internal/deps", "instruction")
	cs := p.Load(cr[0].(sx.Ptr), "code").(*sx.Struct)
	b0 := p.SliceElems(cs.F[fieldIdx(ct, "blocks")].(sx.Slice))[0].(sx.Ptr)
	i0 := p.SliceElems(p.Load(b0, "block").(*sx.Struct).F[fieldIdx(bt, "seq")].(sx.Slice))[0].(sx.Ptr)
	return &emuPrep{word: word, code: cr[0].(sx.Ptr), effects: p.Load(i0, "ins").(*sx.Struct).F[fieldIdx(it, "effects")]}
}

func (c *Ctx) installEmuBuiltins(ev *spec.Eval, entries []rvEntry, prep *emuPrep) {
	B := ev.Builtins
	p := ev.P
	var w *emuWorld
	exprT := c.pkgType("mltwist/pkg/expr", "Expr")
	_ = exprT
	// emu_world(entry, word, variant): see the file comment. variant 0: the
	// emulator knows no register and no memory byte; 1: it knows every
	// register the instruction names and, per accessed address, one of six
	// patterns of memory bytes;
	// 2: it knows rs1 only and every memory byte.
	B["emu_world"] = func(ev *spec.Eval, a []ast.Expr) spec.TV {
		e := entries[constArg(ev, a[0], "entry")]
		words := emuWords(e, c.Tier)
		wi := int(constArg(ev, a[1], "word"))
		if wi >= len(words) {
			p.Stop("infeasible")
		}
		variant := int(constArg(ev, a[2], "variant"))
		ip := uint64(0x1000)
		if len(a) > 3 {
			ip = uint64(constArg(ev, a[3], "ip"))
		}
		w = &emuWorld{c: c, p: p, ref: newRvState(64, "0"), word: words[wi], name: e.Name, regs0: map[string]bool{}}
		w.ref.PC = smt.BVU(0x1000, 64)
		w.kmode = variant
		w.arr = w.ref.MEM
		p.Ghost["emu"] = w
		p.Ghost["callhook"] = w.hook
		saved := p.NoSafety
		p.NoSafety = true
		defer func() { p.NoSafety = saved }()
		if prep.word != w.word || prep.code.Obj == 0 {
			panic(spec.EvalError{Msg: "the code model of this unit was not prepared"})
		}
		cr := sx.Tuple{prep.code, sx.Iface{}}
		w.effects = prep.effects
		// the state: registers per variant, the abstract program memory
		ovT := c.pkgType("mltwist/internal/state/memory", "Overlay")
		w.memObj = p.Alloc(sx.Zero(ovT))
		stT := c.pkgType("mltwist/internal/state", "State")
		regs := p.Call(c.Func("state.NewRegMap"), nil, nil, nil).(sx.Ptr)
		rd, rs1, rs2 := (w.word>>7)&31, (w.word>>15)&31, (w.word>>20)&31
		var known []uint32
		switch variant {
		case 1:
			known = []uint32{rd, rs1, rs2}
		case 2:
			known = []uint32{rs1}
		}
		for _, k := range known {
			if k == 0 || w.regs0[fmt.Sprintf("x%d", k)] {
				continue
			}
			key := fmt.Sprintf("x%d", k)
			w.regs0[key] = true
			v := sx.Iface{T: c.IR.Const, V: w.constOf(smt.Select(w.ref.X, smt.BVU(uint64(k), 5)), 8)}
			p.Call(c.Func("(*state.RegMap).Store"), []sx.Val{regs, sx.Str{S: key}, v, smt.BVU(8, 8)}, nil, nil)
		}
		mmT := c.pkgType("mltwist/internal/state/memory", "MemMap")
		memIfaceT := c.pkgType("mltwist/internal/state/memory", "Memory")
		_ = memIfaceT
		mm := p.NewMap(mmT)
		p.MapStore(mm, sx.Str{S: "memory"}, sx.Iface{T: types.NewPointer(ovT), V: sx.Ptr{Obj: w.memObj}})
		st := sx.Zero(stT).(*sx.Struct)
		st.F[fieldIdx(stT, "Regs")] = regs
		st.F[fieldIdx(stT, "Mems")] = mm
		w.state = sx.Ptr{Obj: p.Alloc(st)}
		provT := c.pkgType("mltwist/internal/consoleui/emulate", "stateProvider")
		prov := sx.Iface{T: types.NewPointer(provT), V: sx.Ptr{Obj: p.Alloc(sx.Zero(provT))}}
		em := p.Call(c.Func("emulator.New"), []sx.Val{cr[0], smt.BVU(ip, 64), prov, w.state}, nil, nil).(sx.Ptr)
		w.regs0[ipKey] = true
		w.emu = em
		w.pre = w.preEnv()
		return spec.TV{V: em, T: types.NewPointer(c.pkgType("mltwist/internal/emulator", "Emulator"))}
	}
	ref := func() *rv.M {
		enc, ok := rv.ByName(64)[w.name]
		if !ok {
			panic(spec.EvalError{Msg: "the RISC-V reference has no instruction named " + w.name})
		}
		m := rv.NewM(64, smt.BVU(uint64(w.word), 32), smt.BVU(0x1000, 64), w.ref.X, w.ref.CSR, w.ref.MEM)
		enc.Sem(m)
		return m
	}
	constTerm := func(v sx.Val) *smt.Term {
		d := &ir.Den{T: c.IR, P: p, Env: w.preEnv()}
		switch x := v.(type) {
		case sx.Iface:
			if x.T == nil {
				return nil
			}
			if c.node(x).Kind != "const" {
				return nil
			}
			return d.Expr(x)
		case *sx.Struct:
			return d.Expr(sx.Iface{T: c.IR.Const, V: x})
		}
		return nil
	}
	// emu_regs_match(): every register the emulator knows holds a constant
	// equal to the reference machine's next-state value
	B["emu_regs_match"] = func(ev *spec.Eval, a []ast.Expr) spec.TV {
		m := ref()
		cond := smt.True
		rmap := w.regMap()
		var ks []string
		for k := range rmap {
			ks = append(ks, k)
		}
		sort.Strings(ks)
		for _, k := range ks {
			want, ok := refReg(k, m.OX, m.OCSR, m.OPC)
			if !ok {
				p.Ghost["detail"] = "the emulator holds the unknown register " + k
				return spec.TV{V: smt.False}
			}
			got := constTerm(rmap[k])
			if got == nil {
				p.Ghost["detail"] = "register " + k + " does not hold a constant"
				return spec.TV{V: smt.False}
			}
			cond = smt.And(cond, smt.Eq(smt.Resize(got, 64), want))
		}
		// x0 is never a register of the state
		if _, has := rmap["x0"]; has {
			return spec.TV{V: smt.False}
		}
		return spec.TV{V: smt.AbstractArith(cond)}
	}
	B["emu_mem_match"] = func(ev *spec.Eval, a []ast.Expr) spec.TV {
		m := ref()
		k := smt.Var("cmp.addr", smt.BV(64))
		kn := w.knownAt(k)
		return spec.TV{V: smt.AbstractArith(smt.And(
			smt.Implies(kn, smt.Eq(smt.Select(w.arr, k), smt.Select(m.OMEM, k))),
			smt.Implies(smt.Not(kn), smt.Eq(smt.Select(m.OMEM, k), smt.Select(w.ref.MEM, k)))))}
	}
	B["emu_nowrap"] = func(ev *spec.Eval, a []ast.Expr) spec.TV {
		return spec.TV{V: smt.True}
	}
	// knowledge only grows (C04): what was known stays known
	B["emu_knowledge_grows"] = func(ev *spec.Eval, a []ast.Expr) spec.TV {
		k := smt.Var("cmp.addr", smt.BV(64))
		cond := smt.Implies(w.known0(k), w.knownAt(k))
		now := w.regMapKeys()
		for r := range w.regs0 {
			if !now[r] {
				p.Ghost["detail"] = "register " + r + " was forgotten"
				return spec.TV{V: smt.False}
			}
		}
		return spec.TV{V: cond}
	}
	// the report of the step against the accesses of the lifted effects
	B["emu_report"] = func(ev *spec.Eval, a []ast.Expr) spec.TV {
		what := strArg(ev, a[0])
		stepT := c.pkgType("mltwist/internal/emulator", "Step")
		maT := c.pkgType("mltwist/internal/emulator", "MemAccess")
		sp, ok := ev.Eval(a[1]).V.(sx.Ptr)
		if !ok || sp.Obj == 0 {
			return spec.TV{V: smt.False}
		}
		step := p.Load(sp, "step").(*sx.Struct)
		d := &ir.Den{T: c.IR, P: p, Env: w.preEnv()}
		fail := func(format string, args ...interface{}) spec.TV {
			p.Ghost["detail"] = fmt.Sprintf(format, args...)
			return spec.TV{V: smt.False}
		}
		// accesses of the lifted effects
		type regRead struct {
			key string
			w   int
		}
		var reads []regRead
		type memRead struct {
			addr *smt.Term
			w    int
		}
		var mreads []memRead
		var walk func(v sx.Val)
		walk = func(v sx.Val) {
			n := c.node(v)
			for _, k := range n.Kids {
				walk(k)
			}
			switch n.Kind {
			case "reg":
				wd, _ := sx.ConstInt(n.S.F[1])
				reads = append(reads, regRead{n.S.F[0].(sx.Str).S, int(wd)})
			case "mem":
				wd, _ := sx.ConstInt(n.S.F[2])
				mreads = append(mreads, memRead{d.Addr(n.S.F[1]), int(wd)})
			}
		}
		var efs []sx.Val
		if sl, ok := w.effects.(sx.Slice); ok {
			if n, _ := sl.Len.Uint64(); n > 0 {
				efs = p.SliceElems(sl)
			}
		}
		for _, ef := range efs {
			s := ef.(sx.Iface).V.(*sx.Struct)
			for _, f := range s.F {
				if op, ok := f.(sx.Iface); ok && op.T != nil {
					walk(op)
				}
			}
		}
		mapOf := func(name string) map[string]sx.Val {
			mr := step.F[fieldIdx(stepT, name)].(sx.MapRef)
			out := map[string]sx.Val{}
			if mr.Obj == 0 {
				return out
			}
			mv := p.Heap[mr.Obj].(*sx.MapVal)
			for i, k := range mv.Keys {
				out[k.(sx.Str).S] = mv.Vals[i]
			}
			return out
		}
		listOf := func(name string) []*sx.Struct {
			sl := step.F[fieldIdx(stepT, name)].(sx.Slice)
			var out []*sx.Struct
			if n, _ := sl.Len.Uint64(); n > 0 {
				for _, e := range p.SliceElems(sl) {
					out = append(out, e.(*sx.Struct))
				}
			}
			return out
		}
		cond := smt.True
		switch what {
		case "reg-loads":
			got := mapOf("RegLoads")
			want := map[string]int{}
			for _, r := range reads {
				if r.w > want[r.key] {
					want[r.key] = r.w
				}
			}
			if len(got) != len(want) {
				return fail("the step reports %d registers read, the lifted effects read %d", len(got), len(want))
			}
			for k := range want {
				g, ok := got[k]
				if !ok {
					return fail("the read of register %s is not reported", k)
				}
				rv0, _ := refReg(k, w.ref.X, w.ref.CSR, w.ref.PC)
				gt := constTerm(g)
				if gt == nil {
					return fail("reported value of %s is not a constant", k)
				}
				// the value read, at the width it was read with
				cond = smt.And(cond, smt.Eq(gt, smt.Resize(rv0, gt.S.W)))
			}
		case "reg-stores":
			got := mapOf("RegStores")
			m := ref()
			want := map[string]bool{}
			for _, ef := range efs {
				e := ef.(sx.Iface)
				if types.Identical(e.T, c.IR.RegStore) {
					want[e.V.(*sx.Struct).F[1].(sx.Str).S] = true
				}
			}
			if len(got) != len(want) {
				return fail("the step reports %d registers written, the lifted effects write %d", len(got), len(want))
			}
			for k := range want {
				g, ok := got[k]
				if !ok {
					return fail("the write of register %s is not reported", k)
				}
				nv, _ := refReg(k, m.OX, m.OCSR, m.OPC)
				gt := constTerm(g)
				if gt == nil {
					return fail("reported value of %s is not a constant", k)
				}
				cond = smt.And(cond, smt.Eq(smt.Resize(gt, 64), nv))
			}
		case "mem-loads":
			got := listOf("MemLoads")
			if len(got) != len(mreads) {
				return fail("the step reports %d memory reads, the lifted effects perform %d", len(got), len(mreads))
			}
			for i, mr := range mreads {
				g := got[i]
				if g.F[fieldIdx(maT, "Key")].(sx.Str).S != "memory" {
					return fail("memory read %d reported for another address space", i)
				}
				cond = smt.And(cond, smt.Eq(g.F[fieldIdx(maT, "Addr")].(*smt.Term), mr.addr))
				gt := constTerm(g.F[fieldIdx(maT, "Value")])
				if gt == nil || gt.S.W != 8*mr.w {
					return fail("memory read %d is not reported with a %d-byte constant", i, mr.w)
				}
				cond = smt.And(cond, smt.Eq(gt, w.preEnv().Mem(sx.Str{S: "memory"}, mr.addr, mr.w)))
			}
		case "mem-stores":
			got := listOf("MemStores")
			var want []ir.Effect
			for _, e := range d.Effects(w.effects) {
				if e.IsMem {
					want = append(want, e)
				}
			}
			if len(got) != len(want) {
				return fail("the step reports %d memory writes, the lifted effects perform %d", len(got), len(want))
			}
			for i, e := range want {
				g := got[i]
				cond = smt.And(cond, smt.Eq(g.F[fieldIdx(maT, "Addr")].(*smt.Term), e.Addr))
				gt := constTerm(g.F[fieldIdx(maT, "Value")])
				if gt == nil || gt.S.W != 8*e.W {
					return fail("memory write %d is not reported with a %d-byte constant", i, e.W)
				}
				cond = smt.And(cond, smt.Eq(gt, e.Val))
			}
		default:
			panic(spec.EvalError{Msg: "emu_report: unknown component " + what})
		}
		return spec.TV{V: smt.AbstractArith(cond)}
	}
	B["emu_state_unchanged"] = func(ev *spec.Eval, a []ast.Expr) spec.TV {
		for id, v := range ev.OldHeap {
			if now, ok := p.Heap[id]; !ok || !sx.SameVal(now, v) {
				return spec.TV{V: smt.False}
			}
		}
		return spec.TV{V: smt.BoolC(w.arr == w.ref.MEM && len(w.stored) == 0)}
	}
}

func emuProp(id string, claim string, technique string, only func(name string) bool, min int) *Prop {
	return &Prop{
		ID:        id,
		Level:     "other",
		Technique: technique,
		MinObls:   min,
		Claim:     claim,
		Note:      "one emulator step (the inductive step of 'after every step') for every entry of the RV64 I, M and A tables, three concrete words per entry (register fields x1-x3, x0 destinations and sources, positive and negative immediates; thorough: five), built into a code model by the real front end. The machine state is arbitrary: symbolic reference registers, CSRs and memory; the emulator knows an arbitrary set of memory bytes and none, all, or one of the registers the instruction names. The program memory is behind the memory.Memory contract (abstract byte array and known-byte set; a successful Load may return any expression with the right value). Bounded in the instruction words, complete over machine states.",
		Assumptions: []string{
			"bounded: concrete instruction words of the corpus (every RV64IMA mnemonic, 3-5 field patterns each); program length and the number of steps are not bounded: one step from an arbitrary state in the simulation relation is the induction step",
			"the reference machine is rv/ref.go (written from the unprivileged ISA manual; SC always succeeds, fence/ecall/ebreak change nothing), as in C01",
			"the memory of the emulator obeys the contract of memory.Memory (properties C14-C16 for the tool's layering Overlay(Bytes, Sparse)); ranges wrapping around 2^64 are outside that contract: the emulator must not pass them (obligation)",
			"the state provider answers with the reference machine's value of the register / memory bytes it is asked for",
			"multiplication and division are uninterpreted symbols shared by the code side and the reference (ground axioms of vc/axioms.go), as in C01",
			"calls of expreval.* are replaced by their contracts (property C10); ConstFold, ReplaceAll, EffectsApply, RegMap, State.Apply, Code.Address and Block.Address are executed as they are",
		},
		Build: func(c *Ctx) []*vc.Unit {
			// multiplication and division are the same uninterpreted symbols on
			// the code side (contracts of expreval, C10) and in the reference
			useUninterpretedArith()
			var entries []rvEntry
			for _, e := range c.rvEntries() {
				if e.XLen == 64 {
					entries = append(entries, e)
				}
			}
			var idx []int64
			for i := range entries {
				idx = append(idx, int64(i))
			}
			c.Sets["RV64ENTRIES"] = idx
			c.Sets["EMUWORDS"] = []int64{0, 1, 2}
			if c.Tier == "thorough" {
				c.Sets["EMUWORDS"] = []int64{0, 1, 2, 3, 4}
			}
			c.Sets["EMUVARIANTS"] = []int64{0, 1, 2}
			c.Sets["BADIPS"] = []int64{0x1002, 0x1004, 0xffc, 0}
			mk := func(us *UnitSpec) {
				if e, ok := us.Enum["en"]; ok {
					us.InstanceName = fmt.Sprintf("%s/%s word=%d state=%d", entries[e].Table, entries[e].Name, us.Enum["w"], us.Enum["v"])
					if ip, ok := us.Enum["ip"]; ok {
						us.InstanceName += fmt.Sprintf(" ip=%x", ip)
						// where the instruction pointer is matters, not which instruction is there
						if c.Tier != "thorough" && (e%16 != 0 || us.Enum["w"] != 0 || us.Enum["v"] != 0) {
							us.Skip = true
							return
						}
					}
					if int(us.Enum["w"]) >= len(emuWords(entries[e], c.Tier)) {
						us.Skip = true
						return
					}
				}
				us.Bounded = "instruction words of the corpus"
				// a step explores at most a few hundred paths (the patterns of
				// known bytes of its memory accesses); a change that
				// multiplies them is reported instead of being explored
				us.MaxPaths = 2000
				us.OnlyObl = only
				us.AbstractArith = true
				us.CallHook = func(p *sx.Path, fn *ssa.Function, args []sx.Val, site ssa.Instruction) (sx.Val, bool) {
					if h, ok := p.Ghost["callhook"].(func(p *sx.Path, fn *ssa.Function, args []sx.Val, site ssa.Instruction) (sx.Val, bool)); ok {
						return h(p, fn, args, site)
					}
					return c.valueHook(p, fn, args, site)
				}
				prep := &emuPrep{}
				if e, ok := us.Enum["en"]; ok {
					word := emuWords(entries[e], c.Tier)[us.Enum["w"]]
					name := entries[e].Name
					us.Prepare = func(p *sx.Path) { *prep = *c.prepareEmuCode(p, word, name) }
				}
				us.Inputs = func(p *sx.Path, ev *spec.Eval, fn *ssa.Function) map[string]sx.Val {
					c.installEmuBuiltins(ev, entries, prep)
					env := c.leafEnv(p)
					env.BigLimit = 0
					p.Ghost["env"] = env
					return nil
				}
			}
			units := c.ContractUnits("(*emulator.Emulator).Step", mk)
			units = append(units, c.ContractUnits("(*emulator.Emulator).Step#not-at-instruction", func(us *UnitSpec) {
				us.FuncName = "(*emulator.Emulator).Step"
				mk(us)
			})...)
			return units
		},
	}
}

func init() {
	isProv := func(n string) bool {
		return strings.Contains(n, "/provider/") || strings.Contains(n, "knowledge-only-grows")
	}
	register(emuProp("C03",
		"After one Step from an arbitrary state in the simulation relation with the reference RISC-V machine: no error when the instruction pointer is at the instruction; every register the emulator knows equals the reference machine's next state, every known memory byte equals the reference memory and every unknown one is unchanged there, the instruction pointer agrees; the step report lists exactly the registers and memory the lifted effects read and wrote, with their values; Step fails, changing nothing, exactly when the instruction pointer is not at the start of the instruction; no panic (index, nil, type assertion, explicit panic) is reachable.",
		"contract-based deductive verification of the real emulator step against the RISC-V reference machine (simulation relation as pre- and postcondition), the program memory behind the contract of memory.Memory; currently bounded in the instruction words",
		func(n string) bool { return !isProv(n) }, 2000))
	register(emuProp("C04",
		"During one Step from an arbitrary state (an arbitrary set of known memory bytes; none, all or one of the named registers known) the state provider is asked for a register only if the register map does not hold it, for memory bytes only if none of them is known, never twice for the same register, and everything known before the step is still known after it; that later reads observe the supplied values is the simulation postcondition of C03 (the provider's answers are the reference machine's values).",
		"contract-based deductive verification of the real emulator step with a ghost log of state-provider calls; the program memory behind the contract of memory.Memory; currently bounded in the instruction words",
		isProv, 100))
}
