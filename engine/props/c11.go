package props

import "gocv/vc"

var gadgetFuncs = []string{
	"Negate", "Sub", "Abs", "Ones", "Mod", "SignedMul", "SignedDiv", "SignedMod", "SignExtend", "RshA",
	"BitNot", "BitAnd", "BitOr", "BitXor", "Bool", "Not", "BoolCond", "Eq", "Lts", "Leu", "Les",
	"MaskBits", "bitMask", "signBitMask", "IntNegative", "NewWidthGadget",
}

func init() {
	register(&Prop{
		ID:        "C11",
		Level:     "proof",
		Technique: "contract-based deductive verification: per-gadget postconditions over the real tree builders, QF_BV validity per enumerated width",
		MinObls:   100,
		Note:      "Each exprtools gadget is executed symbolically (go/ssa) on arbitrary operand leaves; the denotation of the tree it builds (IR semantics of pkg/expr documentation) is compared with the documented function as a bit-vector validity for all operand values. Widths are an enumerated finite parameter (expr.Width is uint8): thorough enumerates 1..255, quick a seeded subset.",
		Assumptions: []string{
			"IR semantics as documented in pkg/expr (DESIGN §4.1) is the meaning of a tree",
			"multiplication and division above 64 bits are uninterpreted symbols shared by code side and specification side",
			"operand widths: the OPWIDTHS set listed under enumerated_sets",
		},
		Build: func(c *Ctx) []*vc.Unit {
			if c.Tier == "thorough" {
				c.Sets["BITCNTS"] = []int64{0, 1, 5, 6, 7, 8, 9, 12, 16, 31, 32, 33, 63, 64, 65, 100, 128, 1000, 2040}
			} else {
				c.Sets["BITCNTS"] = []int64{0, 1, 5, 6, 8, 12, 32, 63, 64, 65, 100}
			}
			var units []*vc.Unit
			for _, g := range gadgetFuncs {
				name := "expr/exprtools." + g
				units = append(units, c.ContractUnits(name, func(us *UnitSpec) {
					us.CallHook = c.gadgetHook(name)
					w, hasW := us.Enum["w"]
					ew, hasE := us.Enum["ew"]
					if c.Tier != "thorough" && hasW && hasE {
						// quick: equal widths, plus mixed widths up to 4 bytes
						if ew != w && !(w <= 4 && ew <= 4) && !(w == 8 && ew == 4) && !(w == 4 && ew == 8) {
							us.Skip = true
						}
					}
					if c.Tier == "thorough" && hasW && hasE && ew != w && w > 16 {
						// mixed widths are enumerated for operation widths up to 16
						us.Skip = true
					}
				})...)
			}
			return units
		},
	})
}
