package sx

import (
	"go/types"

	"gocv/smt"

	"golang.org/x/tools/go/ssa"
)

// Models of strings.Builder (assumed contract: a Builder accumulates the bytes
// written to it, String returns them).
func init() {
	extraIntrinsics = append(extraIntrinsics, func(m *Machine) {
		I := m.Intr
		getBuf := func(p *Path, recv Val) (Ptr, *Struct, []*smt.Term) {
			ptr := recv.(Ptr)
			if ptr.Obj == 0 {
				p.Assert("strings.Builder/nil", "nil", smt.False, "", "method call on nil *strings.Builder")
				p.Stop("panic")
			}
			st := p.Load(ptr, "strings.Builder").(*Struct)
			var bs []*smt.Term
			if sl, ok := st.F[1].(Slice); ok && sl.Obj != 0 {
				for _, e := range p.SliceElems(sl) {
					bs = append(bs, term(e))
				}
			}
			return ptr, st, bs
		}
		setBuf := func(p *Path, ptr Ptr, st *Struct, bs []*smt.Term) {
			els := make([]Val, len(bs))
			for i := range bs {
				els[i] = bs[i]
			}
			ns := &Struct{F: append([]Val{}, st.F...)}
			ns.F[1] = p.NewSlice(types.Typ[types.Uint8], els)
			p.StoreTo(ptr, ns, "strings.Builder")
		}
		I["(*strings.Builder).WriteByte"] = func(p *Path, c *ssa.CallCommon, a []Val) Val {
			ptr, st, bs := getBuf(p, a[0])
			setBuf(p, ptr, st, append(bs, term(a[1])))
			return Iface{}
		}
		I["(*strings.Builder).WriteString"] = func(p *Path, c *ssa.CallCommon, a []Val) Val {
			ptr, st, bs := getBuf(p, a[0])
			s := a[1].(Str)
			if s.Fmt != "" {
				if cs, ok := p.fmtConcrete(s); ok {
					s = Str{S: cs}
				}
			}
			add, ok := s.byteTerms()
			if !ok {
				panic(unsupported("strings.Builder.WriteString of an unbounded symbolic string"))
			}
			setBuf(p, ptr, st, append(bs, add...))
			return Tuple{i64(int64(len(add))), Iface{}}
		}
		I["(*strings.Builder).WriteRune"] = func(p *Path, c *ssa.CallCommon, a []Val) Val {
			ptr, st, bs := getBuf(p, a[0])
			r := term(a[1])
			k, ok := r.Uint64()
			if !ok || k >= 0x80 {
				panic(unsupported("strings.Builder.WriteRune of a symbolic or non-ASCII rune"))
			}
			setBuf(p, ptr, st, append(bs, smt.BVU(k, 8)))
			return Tuple{i64(1), Iface{}}
		}
		I["(*strings.Builder).String"] = func(p *Path, c *ssa.CallCommon, a []Val) Val {
			_, _, bs := getBuf(p, a[0])
			return MkBytesStr(bs)
		}
		I["(*strings.Builder).Len"] = func(p *Path, c *ssa.CallCommon, a []Val) Val {
			_, _, bs := getBuf(p, a[0])
			return i64(int64(len(bs)))
		}
		I["(*strings.Builder).Grow"] = func(p *Path, c *ssa.CallCommon, a []Val) Val { return nil }
		I["(*strings.Builder).Reset"] = func(p *Path, c *ssa.CallCommon, a []Val) Val {
			ptr, st, _ := getBuf(p, a[0])
			setBuf(p, ptr, st, nil)
			return nil
		}
	})
}

// Console input: linereader.ReadLine returns the next line of the scripted
// standard input of the path (Ghost["stdin"], a []Str), io.EOF after the last.
func init() {
	extraIntrinsics = append(extraIntrinsics, func(m *Machine) {
		m.Intr["mltwist/internal/consoleui/internal/linereader.ReadLine"] = func(p *Path, c *ssa.CallCommon, a []Val) Val {
			q, _ := p.Ghost["stdin"].([]Str)
			if len(q) == 0 {
				if _, stop := p.Ghost["stdin.stop"]; stop {
					// the scripted input is a prefix of the session: the
					// path ends where the script does
					p.Stop("stdin-exhausted")
				}
				return Tuple{Str{}, p.NewError(Str{S: "EOF"}, Iface{})}
			}
			p.Ghost["stdin"] = q[1:]
			return Tuple{q[0], Iface{}}
		}
	})
}

// ExtraIntrinsic registers models of external functions from other packages
// of the verifier.
func ExtraIntrinsic(f func(m *Machine)) { extraIntrinsics = append(extraIntrinsics, f) }

// SliceAt returns the element of s at index k (a term); k is not checked
// against the length.
func (p *Path) SliceAt(s Slice, k *smt.Term) *smt.Term {
	a := p.Heap[s.Obj].(*Arr)
	idx := smt.BVAdd(s.Off, k)
	if a.Elems == nil {
		return term(p.symArrGet(a, idx))
	}
	saved := p.NoSafety
	p.NoSafety = true
	defer func() { p.NoSafety = saved }()
	return term(p.arrGet(a, idx, "spec"))
}

// NewMap allocates an empty map; MapStore sets m[key] = val.
func (p *Path) NewMap(t types.Type) MapRef { return MapRef{Obj: p.Alloc(&MapVal{})} }
func (p *Path) MapStore(m MapRef, key, val Val) { p.mapUpdate(nil, m, key, val) }
