package props

import (
	"regexp"
	"encoding/json"
	"fmt"
	"os"
	"path/filepath"
	"sort"
	"strings"
	"time"

	"gocv/smt"
	"gocv/sx"
	"gocv/vc"
)

// Prop is the machinery of one property.
type Prop struct {
	ID          string
	Level       string // level written to the evidence: proof | other
	Technique   string
	Build       func(c *Ctx) []*vc.Unit
	Assumptions []string
	Trusted     []string
	MinObls     int // vacuity guard: at least this many obligations
	Note        string
	Claim       string // level_claimed.text of the manifest (defaults to Note)
}

// Registry of property drivers.
var Registry = map[string]*Prop{}

func register(p *Prop) { Registry[p.ID] = p }

// Finding is an entry of /verif/known_findings.json.
type Finding struct {
	Property   string `json:"property"`
	Status     string `json:"status"` // known | fixed
	Obligation string `json:"obligation"`
	What       string `json:"what"`
	Commit     string `json:"commit,omitempty"`
	Input      string `json:"input,omitempty"`
	// Instances, when given, is a regular expression: the finding covers
	// only the instances (the part of the obligation name after " @") that
	// match it; a failure of the same obligation for another instance is a
	// violation.
	Instances string `json:"instances,omitempty"`
}

func loadFindings(path string) []Finding {
	var fs []Finding
	data, err := os.ReadFile(path)
	if err != nil {
		return nil
	}
	json.Unmarshal(data, &fs)
	return fs
}

// matchFinding: an obligation is covered by a known finding when the
// finding's obligation pattern is a prefix of the obligation name (up to the
// instance suffix) — a different obligation of the same property is not.
func matchFinding(fs []Finding, prop string, o *vc.Outcome) *Finding {
	for i := range fs {
		f := &fs[i]
		if f.Property != prop || f.Status != "known" {
			continue
		}
		if o.Name == f.Obligation || strings.HasPrefix(o.Name, f.Obligation+" @") {
			if f.Instances != "" {
				inst := ""
				if i := strings.Index(o.Name, " @"); i >= 0 {
					inst = o.Name[i+2:]
				}
				re, err := regexp.Compile(f.Instances)
				if err != nil || !re.MatchString(inst) {
					continue
				}
			}
			return f
		}
	}
	return nil
}

// Run checks one property and returns the process exit code.
func Run(P *sx.Program, id, tier string, seed int64, verifDir string, verbose bool) int {
	t0 := time.Now()
	pr, ok := Registry[id]
	if !ok {
		fmt.Printf("property %s has no check\n", id)
		return 2
	}
	scratch, err := os.MkdirTemp("", "gocv-"+id+"-")
	if err != nil {
		fmt.Println(err)
		return 2
	}
	if !smt.KeepQueries {
		defer os.RemoveAll(scratch)
	} else {
		fmt.Println("queries kept in", scratch)
	}
	smt.ScratchDir = scratch
	c, err := NewCtx(P, tier, seed)
	if err != nil {
		fmt.Printf("ERROR loading contracts: %v\n", err)
		return failHard(id, tier, seed, verifDir, t0, err.Error())
	}
	c.defaultSets()
	var units []*vc.Unit
	var buildErr string
	func() {
		defer func() {
			if r := recover(); r != nil {
				buildErr = fmt.Sprint(r)
			}
		}()
		tb := time.Now()
		units = pr.Build(c)
		if os.Getenv("GOCV_TIMING") != "" {
			fmt.Fprintf(os.Stderr, "build: %.2fs (%d units)\n", time.Since(tb).Seconds(), len(units))
		}
	}()
	if buildErr != "" {
		fmt.Printf("ERROR building obligations: %s\n", buildErr)
		return failHard(id, tier, seed, verifDir, t0, buildErr)
	}
	timeout := 20
	if tier == "thorough" {
		timeout = 300
	}
	if only := os.Getenv("GOCV_ONLY"); only != "" {
		var sel []*vc.Unit
		for _, u := range units {
			if strings.Contains(u.Func+" "+u.Instance, only) {
				sel = append(sel, u)
			}
		}
		units = sel
	}
	P.M.SolveHyps = vc.SolveHyps
	P.M.Feasible = vc.Feasible
	if P.M.Concretize == nil {
		// expr.Width determines the shape of expression trees: a width
		// computed from symbolic data is split into its feasible values
		P.M.Concretize = map[string]int{"mltwist/pkg/expr.Width": 255}
	}
	tc := time.Now()
	rep := vc.Check(P.M, units, vc.Config{Timeout: timeout, Verbose: verbose})
	if os.Getenv("GOCV_TIMING") != "" {
		fmt.Fprintf(os.Stderr, "check: %.2fs\n", time.Since(tc).Seconds())
	}
	if verbose {
		for _, o := range rep.Outcomes {
			fmt.Printf("  [%s] %s paths=%d size=%d %s %.2fs\n", o.Status, o.Name, o.Paths, o.Size, o.Solver, o.Seconds)
			if os.Getenv("GOCV_SHOWQ") != "" && o.Query != nil {
				fmt.Println(o.Query.Render())
			}
		}
	}
	findings := loadFindings(filepath.Join(verifDir, "known_findings.json"))
	total, proved, trivial, failed, unknown := rep.Counts()
	violations := 0
	replayDir := filepath.Join(verifDir, "replays")
	var lines []string
	knownSeen := map[string]bool{}
	var failedNames []string
	os.MkdirAll(replayDir, 0o755)
	if olds, _ := filepath.Glob(filepath.Join(replayDir, id+"_*")); len(olds) > 0 {
		for _, f := range olds {
			os.Remove(f)
		}
	}
	type grp struct {
		first *vc.Outcome
		insts []string
	}
	groups := map[string]*grp{}
	var gorder []string
	for _, o := range rep.Failed() {
		if os.Getenv("GOCV_LISTFAILED") != "" {
			fmt.Printf("  failed: [%s] %s\n", o.Status, o.Name)
		}
		if f := matchFinding(findings, id, o); f != nil {
			if !knownSeen[f.Obligation] {
				knownSeen[f.Obligation] = true
				lines = append(lines, fmt.Sprintf("KNOWN-FINDING: property=%s %s: %s", id, f.Obligation, f.What))
			}
			continue
		}
		base := o.Name
		inst := ""
		if i := strings.Index(base, " @"); i >= 0 {
			base, inst = o.Name[:i], o.Name[i+2:]
		}
		g, ok := groups[base]
		if !ok {
			g = &grp{first: o}
			groups[base] = g
			gorder = append(gorder, base)
		}
		// prefer an instance with a model for the replay
		if !g.first.Sat && o.Sat {
			g.first = o
		}
		g.insts = append(g.insts, inst)
	}
	for _, base := range gorder {
		g := groups[base]
		o := g.first
		violations++
		failedNames = append(failedNames, base)
		path := vc.WriteReplay(replayDir, id, o)
		suffix := ""
		if !o.Sat {
			suffix = " no-failing-input-found"
		}
		extra := ""
		if len(g.insts) > 1 {
			extra = fmt.Sprintf(" (%d instances fail, e.g. %s)", len(g.insts), strings.Join(g.insts[:min(3, len(g.insts))], "; "))
		}
		fmt.Printf("FAILED obligation %s [%s] at %s: %s%s\n", o.Name, o.Status, o.Pos, o.Note, extra)
		lines = append(lines, fmt.Sprintf("VIOLATION property=%s replay=%s obligation=%q%s", id, path, base, suffix))
	}
	if rep.Skipped > 0 {
		rep.Errors = append(rep.Errors, fmt.Sprintf("%d further units were not explored after 8 units failed to generate their obligations", rep.Skipped))
	}
	seenErr := map[string]bool{}
	for _, e := range rep.Errors {
		key := e
		if i := strings.Index(e, ": "); i >= 0 {
			key = e[i+2:]
		}
		key = firstLine(key)
		if seenErr[key] {
			continue
		}
		seenErr[key] = true
		violations++
		path := filepath.Join(replayDir, fmt.Sprintf("%s_engine_error_%d.txt", id, violations))
		os.MkdirAll(replayDir, 0o755)
		os.WriteFile(path, []byte("property: "+id+"\nobligation: (generation failed)\n"+e+"\n"), 0o644)
		fmt.Printf("ERROR %s\n", e)
		lines = append(lines, fmt.Sprintf("VIOLATION property=%s replay=%s obligation=%q no-failing-input-found", id, path, "vc-generation: "+firstLine(e)))
	}
	for _, cp := range rep.CanaryProblems() {
		violations++
		path := filepath.Join(replayDir, fmt.Sprintf("%s_vacuity_%d.txt", id, violations))
		os.MkdirAll(replayDir, 0o755)
		os.WriteFile(path, []byte("property: "+id+"\nobligation: vacuity canary\n"+cp+"\n"), 0o644)
		lines = append(lines, fmt.Sprintf("VIOLATION property=%s replay=%s obligation=%q no-failing-input-found", id, path, "vacuity: "+cp))
	}
	if total < pr.MinObls {
		violations++
		path := filepath.Join(replayDir, fmt.Sprintf("%s_vacuity_count.txt", id))
		os.MkdirAll(replayDir, 0o755)
		msg := fmt.Sprintf("only %d obligations were generated, at least %d expected (functions under contract missing or renamed?)", total, pr.MinObls)
		os.WriteFile(path, []byte("property: "+id+"\nobligation: obligation count\n"+msg+"\n"), 0o644)
		lines = append(lines, fmt.Sprintf("VIOLATION property=%s replay=%s obligation=%q no-failing-input-found", id, path, "vacuity: "+msg))
	}
	// evidence
	var funcs []string
	for f := range rep.Funcs {
		funcs = append(funcs, f)
	}
	sort.Strings(funcs)
	bySolver := map[string]int{}
	bounded := 0
	var samples []map[string]interface{}
	var slowest *vc.Outcome
	for _, o := range rep.Outcomes {
		if o.Unit.Canary {
			continue
		}
		if o.Status == "proved" {
			bySolver[o.Solver]++
		} else if o.Status == "trivial" {
			bySolver["simplifier"]++
		}
		if o.Bounded != "" {
			bounded++
		}
		if slowest == nil || o.Seconds > slowest.Seconds {
			slowest = o
		}
	}
	for i, o := range rep.Outcomes {
		if o.Unit.Canary {
			continue
		}
		if len(samples) < 6 && (i%(len(rep.Outcomes)/5+1) == 0) {
			samples = append(samples, map[string]interface{}{"obligation": o.Name, "status": o.Status, "solver": o.Solver, "seconds": round3(o.Seconds), "dag_size": o.Size, "paths": o.Paths, "at": o.Pos, "bounded": o.Bounded})
		}
	}
	if slowest != nil {
		samples = append(samples, map[string]interface{}{"slowest_obligation": slowest.Name, "seconds": round3(slowest.Seconds), "solver": slowest.Solver})
	}
	canaries := 0
	for _, o := range rep.Outcomes {
		if o.Unit.Canary {
			canaries++
		}
	}
	level := pr.Level
	assumptions := append([]string{}, pr.Assumptions...)
	assumptions = append(assumptions, c.Assumed...)
	var inl []string
	for k := range c.Inlined {
		inl = append(inl, k)
	}
	sort.Strings(inl)
	if len(inl) > 0 {
		assumptions = append(assumptions, "callee bodies unfolded instead of using a contract (DESIGN §3.5): "+strings.Join(inl, ", "))
	}
	for _, l := range P.InitLog {
		assumptions = append(assumptions, "package initialisation: "+l)
	}
	var known []string
	for k := range knownSeen {
		known = append(known, k)
	}
	sort.Strings(known)
	cov := map[string]interface{}{
		"obligations":           total,
		"discharged":            proved + trivial,
		"discharged_by_solver":  proved,
		"discharged_by_simplifier": trivial,
		"failed":                failed,
		"undecided":             unknown,
		"bounded_obligations":   bounded,
		"vacuity_canaries":      canaries,
		"by_backend":            bySolver,
		"solver_seconds":        round3(rep.SolverSecs),
		"explore_seconds":       round3(rep.ExploreSecs),
		"functions_under_contract": funcs,
		"units":                 rep.Units,
		"paths":                 rep.Paths,
		"checker_cmd":           fmt.Sprintf("cd /verif && ./check %s %s", id, tier),
		"trusted_base":          append([]string{"gocv (this engine: go/ssa symbolic executor, VC generator, term simplifier)", "golang.org/x/tools v0.29.0 go/ssa lowering", "z3 4.8.12 / z3 5.1.0 / cvc5 1.0.3"}, pr.Trusted...),
		"samples":               samples,
		"explanation":           pr.Note,
		"known_findings_hit":    known,
		"failed_obligations":    failedNames,
		"enumerated_sets":       c.usedSets(),
	}
	ev := map[string]interface{}{
		"property_id": id,
		"tier":        tier,
		"seed":        seed,
		"level":       level,
		"coverage":    cov,
		"assumptions": assumptions,
		"wall_s":      round3(time.Since(t0).Seconds() + P.LoadSecs),
		"violations":  violations,
	}
	os.MkdirAll(filepath.Join(verifDir, "evidence"), 0o755)
	data, _ := json.MarshalIndent(ev, "", " ")
	os.WriteFile(filepath.Join(verifDir, "evidence", id+".json"), data, 0o644)
	fmt.Printf("%s %s: %d obligations, %d discharged (%d by solver, %d by simplifier), %d failed, %d undecided, %d bounded; %d units, %d paths; explore %.1fs, solver %.1fs (cpu), wall %.1fs\n",
		id, tier, total, proved+trivial, proved, trivial, failed, unknown, bounded, rep.Units, rep.Paths, rep.ExploreSecs, rep.SolverSecs, time.Since(t0).Seconds())
	for _, l := range lines {
		fmt.Println(l)
	}
	if violations > 0 {
		return 1
	}
	return 0
}

func firstLine(s string) string {
	if i := strings.Index(s, "\n"); i >= 0 {
		s = s[:i]
	}
	if len(s) > 200 {
		s = s[:200]
	}
	return s
}

func round3(f float64) float64 { return float64(int(f*1000)) / 1000 }

func failHard(id, tier string, seed int64, verifDir string, t0 time.Time, msg string) int {
	replayDir := filepath.Join(verifDir, "replays")
	os.MkdirAll(replayDir, 0o755)
	path := filepath.Join(replayDir, id+"_generation_error.txt")
	os.WriteFile(path, []byte("property: "+id+"\nobligation: (verification-condition generation)\n"+msg+"\n"), 0o644)
	ev := map[string]interface{}{
		"property_id": id, "tier": tier, "seed": seed, "level": "other",
		"coverage":   map[string]interface{}{"explanation": "verification-condition generation failed: " + msg, "obligations": 0, "discharged": 0},
		"wall_s":     round3(time.Since(t0).Seconds()),
		"violations": 1,
	}
	os.MkdirAll(filepath.Join(verifDir, "evidence"), 0o755)
	data, _ := json.MarshalIndent(ev, "", " ")
	os.WriteFile(filepath.Join(verifDir, "evidence", id+".json"), data, 0o644)
	fmt.Printf("VIOLATION property=%s replay=%s obligation=%q no-failing-input-found\n", id, path, "vc-generation: "+firstLine(msg))
	return 1
}

// defaultSets installs the enumeration sets of the tier.
func (c *Ctx) defaultSets() {
	if c.Tier == "thorough" {
		var all []int64
		for w := int64(1); w <= 255; w++ {
			all = append(all, w)
		}
		c.Sets["WIDTHS"] = all
		c.Sets["WIDTHS0"] = append([]int64{0}, all...)
		c.Sets["HALFWIDTHS"] = all[:127]
		c.Sets["OPWIDTHS"] = []int64{1, 2, 3, 4, 5, 8, 9, 16}
	} else {
		ws := []int64{1, 2, 3, 4, 8, 16}
		// seeded extras
		r := c.Seed
		if r < 0 {
			r = -r
		}
		extra := []int64{5 + r%3, 9 + (r/3)%7, 17 + (r/21)%16}
		ws = append(ws, extra...)
		c.Sets["WIDTHS"] = ws
		c.Sets["WIDTHS0"] = append([]int64{0}, ws...)
		c.Sets["HALFWIDTHS"] = ws
		c.Sets["OPWIDTHS"] = []int64{1, 2, 4, 8}
	}
	c.Sets["BOOL"] = []int64{0, 1}
}

func (c *Ctx) usedSets() map[string][]int64 { return c.Sets }
