package sx

import (
	"fmt"
	"sort"
	"strings"
	"sync"

	"gocv/smt"
)

// Concretisation of a small symbolic integer: the set of values of t that are
// feasible under the current path condition is computed with the solver
// (model enumeration), then the path forks over that set in ascending order.
// The set is a semantic fact, so it is the same on every re-execution of the
// path prefix and the forking stays aligned with the recorded decisions; it is
// cached per (path condition, term).

var concMu sync.Mutex
var concCache = map[string][]uint64{}

// TryConcretize is ConcretizeTerm when t has at most limit+1 feasible values,
// all of them <= limit; otherwise it returns t unchanged and false.
func (p *Path) TryConcretize(t *smt.Term, limit int) (r *smt.Term, ok bool) {
	if t.IsConst() {
		return t, true
	}
	if p.M.SolveHyps == nil {
		return t, false
	}
	ok = true
	func() {
		defer func() {
			if e := recover(); e != nil {
				if u, isU := e.(Unsupported); isU && strings.HasPrefix(u.Msg, "concretisation: more than") {
					ok = false
					return
				}
				panic(e)
			}
		}()
		r = p.ConcretizeTerm(t, limit)
	}()
	if !ok {
		return t, false
	}
	return r, true
}

// ConcretizeTerm returns a constant equal to t on the current path.
func (p *Path) ConcretizeTerm(t *smt.Term, limit int) *smt.Term {
	if t.IsConst() {
		return t
	}
	if p.M.SolveHyps == nil {
		panic(unsupported("symbolic value where a concrete one is needed (no solver installed for concretisation)"))
	}
	var sb strings.Builder
	for _, h := range p.PC {
		fmt.Fprintf(&sb, "%d,", h.ID)
	}
	fmt.Fprintf(&sb, "|%d", t.ID)
	key := sb.String()
	concMu.Lock()
	vals, ok := concCache[key]
	concMu.Unlock()
	if !ok {
		hyps := append([]*smt.Term{}, p.PC...)
		for len(vals) <= limit+1 {
			v, sat, okS := p.M.SolveHyps(hyps, t)
			if !okS {
				panic(unsupported("concretisation: the solver could not decide feasibility"))
			}
			if !sat {
				break
			}
			k, isU := v.Uint64()
			if !isU {
				panic(unsupported("concretisation: value out of range"))
			}
			vals = append(vals, k)
			hyps = append(hyps, smt.Not(smt.Eq(t, v)))
		}
		sort.Slice(vals, func(i, j int) bool { return vals[i] < vals[j] })
		concMu.Lock()
		concCache[key] = vals
		concMu.Unlock()
	}
	if len(vals) == 0 {
		p.Stop("infeasible")
	}
	if len(vals) > limit+1 || vals[len(vals)-1] > uint64(limit) {
		panic(unsupported(fmt.Sprintf("concretisation: more than %d feasible values, or a value above %d", limit+1, limit)))
	}
	for i, k := range vals {
		c := smt.BVU(k, t.S.W)
		if i == len(vals)-1 {
			p.PC = append(p.PC, smt.Eq(t, c))
			return c
		}
		if p.decideRaw(smt.Eq(t, c)) {
			return c
		}
	}
	panic("unreachable")
}

// decideRaw forks without any pruning (the caller knows both sides are feasible).
func (p *Path) decideRaw(c *smt.Term) bool {
	if p.dpos < len(p.Dec) {
		b := p.Dec[p.dpos]
		p.dpos++
		if b {
			p.PC = append(p.PC, c)
		} else {
			p.PC = append(p.PC, smt.Not(c))
		}
		return b
	}
	p.Dec = append(p.Dec, true)
	p.dpos++
	p.PC = append(p.PC, c)
	return true
}

// DecideChecked is Decide with a feasibility test by the solver: a branch
// that contradicts the path condition is not explored. The test is a
// semantic fact of (path condition, c), so re-executions of the path prefix
// stay aligned with the recorded decisions.
func (p *Path) DecideChecked(c *smt.Term) bool {
	if c.IsTrue() {
		return true
	}
	if c.IsFalse() {
		return false
	}
	if p.M.Feasible == nil {
		return p.Decide(c)
	}
	feasible := func(t *smt.Term) bool {
		var sb strings.Builder
		for _, h := range p.PC {
			fmt.Fprintf(&sb, "%d,", h.ID)
		}
		fmt.Fprintf(&sb, "?%d", t.ID)
		key := sb.String()
		concMu.Lock()
		v, ok := feasCache[key]
		concMu.Unlock()
		if ok {
			return v
		}
		sat, okS := p.M.Feasible(append(append([]*smt.Term{}, p.PC...), t))
		if !okS {
			sat = true // undecided: explore
		}
		concMu.Lock()
		feasCache[key] = sat
		concMu.Unlock()
		return sat
	}
	ft, ff := feasible(c), feasible(smt.Not(c))
	switch {
	case ft && !ff:
		p.PC = append(p.PC, c)
		return true
	case ff && !ft:
		p.PC = append(p.PC, smt.Not(c))
		return false
	case !ft && !ff:
		p.Stop("infeasible")
	}
	return p.Decide(c)
}

var feasCache = map[string]bool{}
