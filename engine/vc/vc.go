// Package vc collects proof obligations from symbolic executions, discharges
// them with the SMT solvers and reports the outcome per named obligation.
package vc

import (
	"fmt"
	"os"
	"runtime"
	"sort"
	"strings"
	"sync"
	"sync/atomic"
	"time"

	"gocv/smt"
	"gocv/sx"
)

// Unit is one function under contract, possibly one instance of an enumerated
// family (a concrete width, type, shape ...).
type Unit struct {
	Func     string // function under contract (FuncName)
	Instance string // "" or e.g. "w=4"
	Bounded  string // non-empty: this unit is a bounded stand-in; text states the bound
	MaxPaths int
	// Run explores all paths; obligations are recorded on the paths.
	Run func(m *sx.Machine) ([]sx.PathResult, error)
	// PreDecl/Prelude are raw SMT-LIB added to every query of this unit.
	PreDecl, Prelude string
	// MustFail lists obligation-name substrings that are expected to fail
	// (vacuity canaries): they are solved and must NOT be unsat.
	Canary bool
	// Replay builds a replay artefact from a model.
	Replay func(o *Outcome) string
	// Timeout override in seconds (0 = default)
	Timeout int
	// OnlyObl, when set, selects the obligations of this unit that belong to
	// the property being checked (the unit is shared with another property).
	OnlyObl func(name string) bool
	// AbstractArith: multiplication and unsigned division of non-constant
	// operands are replaced, in the whole obligation (path conditions
	// included), by the uninterpreted symbols umulN/udivN plus ground axioms.
	AbstractArith bool
}

// Outcome of one named obligation.
type Outcome struct {
	Name     string
	Unit     *Unit
	Kind     string
	Status   string // proved | failed | unknown | trivial
	Solver   string
	Seconds  float64
	Paths    int
	Size     int
	Pos      string
	Note     string
	Model    map[string]string // variable -> value (hex)
	ModelT   map[int]*smt.Term
	Output   string
	File     string
	Bounded  string
	Query    *smt.Query
	FailPath int
	// Sat: a solver found the negated obligation satisfiable (Model may be
	// empty when the obligation has no free variable: then every input of the
	// unit's shape is a counterexample).
	Sat bool
}

// Report is the result of checking a set of units.
type Report struct {
	Outcomes   []*Outcome
	Units      int
	Paths      int
	Errors     []string
	Funcs      map[string]bool
	SolverSecs float64
	Wall       float64
	// ExploreSecs is the wall time of the symbolic-execution phase.
	ExploreSecs float64
	// Skipped counts units not explored because the run had failed already.
	Skipped int
}

// Config for a run.
type Config struct {
	Timeout int // seconds per obligation
	Workers int
	Verbose bool
	Log     func(string)
}

type rawObl struct {
	name string
	unit *Unit
	obls []sx.Obl
}

// Check executes the units and solves their obligations.
func Check(m *sx.Machine, units []*Unit, cfg Config) *Report {
	t0 := time.Now()
	rep := &Report{Funcs: map[string]bool{}}
	if cfg.Workers <= 0 {
		cfg.Workers = runtime.NumCPU()
	}
	if cfg.Timeout <= 0 {
		cfg.Timeout = 20
	}
	// Units are processed by a pool of workers: a unit is explored, its
	// obligations are grouped and solved, and only the outcomes are kept, so
	// that the memory needed is bounded by the units in flight.
	var mu sync.Mutex
	var allOuts [][]*Outcome = make([][]*Outcome, len(units))
	var exploreNanos int64
	var unitErrors int32
	var uwg sync.WaitGroup
	usem := make(chan struct{}, cfg.Workers)
	for ui, u := range units {
		uwg.Add(1)
		usem <- struct{}{}
		go func(ui int, u *Unit) {
			defer uwg.Done()
			defer func() { <-usem }()
			te := time.Now()
			var results []sx.PathResult
			var err error
			if atomic.LoadInt32(&unitErrors) >= 8 {
				// the run is failing already: do not spend the time budget
				// of every remaining unit
				mu.Lock()
				rep.Units++
				rep.Skipped++
				mu.Unlock()
				return
			}
			func() {
				defer func() {
					if r := recover(); r != nil {
						err = fmt.Errorf("engine panic in unit %s %s: %v", u.Func, u.Instance, r)
						if cfg.Verbose {
							buf := make([]byte, 1<<14)
							n := runtime.Stack(buf, false)
							err = fmt.Errorf("%v\n%s", err, buf[:n])
						}
					}
				}()
				results, err = u.Run(m)
			}()
			atomic.AddInt64(&exploreNanos, int64(time.Since(te)))
			for k := range results {
				results[k].Path = nil
			}
			mu.Lock()
			rep.Units++
			rep.Funcs[u.Func] = true
			if err != nil {
				atomic.AddInt32(&unitErrors, 1)
				rep.Errors = append(rep.Errors, fmt.Sprintf("%s %s: %v", u.Func, u.Instance, err))
				mu.Unlock()
				return
			}
			rep.Paths += len(results)
			if cfg.Verbose {
				reasons := map[string]int{}
				for _, r := range results {
					reasons[r.Reason]++
				}
				fmt.Printf("  unit %s %s: path ends %v\n", u.Func, u.Instance, reasons)
			}
			mu.Unlock()
			byName := map[string]*rawObl{}
			var order []string
			for _, r := range results {
				for _, o := range r.Obls {
					n := o.Name
					if u.OnlyObl != nil && !u.OnlyObl(n) {
						continue
					}
					if u.Instance != "" {
						n += " @" + u.Instance
					}
					g, ok := byName[n]
					if !ok {
						g = &rawObl{name: n, unit: u}
						byName[n] = g
						order = append(order, n)
					}
					g.obls = append(g.obls, o)
				}
			}
			results = nil
			var groups []*rawObl
			for _, n := range order {
				groups = append(groups, byName[n])
			}
			outs := solveGroups(groups, cfg)
			for _, o := range outs {
				if o.Status == "proved" || o.Status == "trivial" {
					o.Query = nil // release the terms
				}
			}
			allOuts[ui] = outs
		}(ui, u)
	}
	uwg.Wait()
	rep.ExploreSecs = float64(exploreNanos) / 1e9 / float64(cfg.Workers)
	var outs []*Outcome
	for _, os := range allOuts {
		outs = append(outs, os...)
	}
	for _, o := range outs {
		rep.SolverSecs += o.Seconds
	}
	rep.Outcomes = outs
	rep.Wall = time.Since(t0).Seconds()
	return rep
}


// solveGroups discharges the obligation groups of one unit.
func solveGroups(groups []*rawObl, cfg Config) []*Outcome {
	outs := make([]*Outcome, len(groups))
	var wg sync.WaitGroup
	for i, g := range groups {
		o := &Outcome{Name: g.name, Unit: g.unit, Kind: g.obls[0].Kind, Pos: g.obls[0].Pos, Note: g.obls[0].Note, Paths: len(g.obls), Bounded: g.unit.Bounded}
		outs[i] = o
		var goals []*smt.Term
		for _, ob := range g.obls {
			if ob.Cond.IsTrue() {
				continue
			}
			goals = append(goals, smt.Implies(smt.And(ob.PC...), simplifyUnder(ob.PC, ob.Cond)))
		}
		if len(goals) == 0 {
			o.Status = "trivial"
			continue
		}
		if g.unit.AbstractArith {
			for k := range goals {
				goals[k] = smt.AbstractArith(goals[k])
			}
		}
		goal := smt.And(goals...)
		if goal.IsTrue() {
			o.Status = "trivial"
			continue
		}
		q := &smt.Query{Name: g.name, Goal: goal, PreDecl: g.unit.PreDecl, Prelude: g.unit.Prelude}
		q.Hyps = arithAxioms(goal)
		for _, v := range smt.FreeVars(goal) {
			if v.S.K == smt.KBV || v.S.K == smt.KBool || v.S.K == smt.KInt {
				q.Values = append(q.Values, v)
			}
		}
		o.Query = q
		o.Size = smt.Size(goal)
		wg.Add(1)
		go func(o *Outcome, q *smt.Query, g *rawObl, goals []*smt.Term) {
			defer wg.Done()
			to := cfg.Timeout
			if g.unit.Timeout > 0 {
				to = g.unit.Timeout
			}
			first := to
			if len(goals) > 1 && first > 8 {
				first = 8
			}
			r := smt.Solve(q, first)
			if r.Status != "unsat" && r.Status != "sat" && len(goals) > 1 {
				// the conjunction over all paths is too hard: decide the
				// paths one by one (the obligation holds iff every one does)
				spent := r.Seconds
				all := true
				seen := map[int]bool{}
				var todo []*smt.Term
				for _, gi := range goals {
					if gi.IsTrue() || seen[gi.ID] {
						continue
					}
					seen[gi.ID] = true
					todo = append(todo, gi)
				}
				type one struct {
					r smt.Result
					q *smt.Query
				}
				res := make([]one, len(todo))
				var swg sync.WaitGroup
				var stop int32
				for k, gi := range todo {
					swg.Add(1)
					go func(k int, gi *smt.Term) {
						defer swg.Done()
						if atomic.LoadInt32(&stop) != 0 {
							res[k].r.Status = "skipped"
							return
						}
						qi := &smt.Query{Name: q.Name, Goal: gi, PreDecl: q.PreDecl, Prelude: q.Prelude, Hyps: arithAxioms(gi)}
						for _, v := range smt.FreeVars(gi) {
							if v.S.K == smt.KBV || v.S.K == smt.KBool || v.S.K == smt.KInt {
								qi.Values = append(qi.Values, v)
							}
						}
						res[k] = one{smt.Solve(qi, to), qi}
						if res[k].r.Status == "sat" {
							atomic.StoreInt32(&stop, 1)
						}
					}(k, gi)
				}
				swg.Wait()
				for k := range res {
					spent += res[k].r.Seconds
					if res[k].r.Status == "sat" {
						r, q, all = res[k].r, res[k].q, false
						break
					}
				}
				if all {
					for k := range res {
						if res[k].r.Status != "unsat" {
							r, all = res[k].r, false
							break
						}
					}
				}
				if all {
					r.Status = "unsat"
					r.Solver += "+split"
				}
				r.Seconds = spent
			}
			o.Solver = r.Solver
			o.Seconds = r.Seconds
			o.Output = r.Output
			o.File = r.File
			switch r.Status {
			case "unsat":
				o.Status = "proved"
			case "sat":
				o.Status = "failed"
				o.Sat = true
				o.ModelT = r.Model
				o.Model = map[string]string{}
				for _, v := range q.Values {
					if c, ok := r.Model[v.ID]; ok {
						o.Model[v.Name] = c.String()
					}
				}
				// find the failing path for the note
				for k, ob := range g.obls {
					if ob.Cond.IsTrue() {
						continue
					}
					if evalBool(smt.And(append(append([]*smt.Term{}, ob.PC...), smt.Not(ob.Cond))...), r.Model) {
						o.FailPath = k
						o.Pos = ob.Pos
						o.Note = ob.Note
						break
					}
				}
			default:
				o.Status = "unknown"
				if len(o.Output) > 400 {
					o.Output = o.Output[:400]
				}
				o.Output = r.Status + ": " + o.Output
			}
		}(o, q, g, goals)
	}
	wg.Wait()
	return outs
}
func evalBool(t *smt.Term, model map[int]*smt.Term) bool {
	defer func() { recover() }()
	r := smt.Eval(t, model)
	return r != nil && r.IsTrue()
}

// Summary counts.
func (r *Report) Counts() (total, proved, trivial, failed, unknown int) {
	for _, o := range r.Outcomes {
		if o.Unit.Canary {
			continue
		}
		total++
		switch o.Status {
		case "proved":
			proved++
		case "trivial":
			trivial++
		case "failed":
			failed++
		default:
			unknown++
		}
	}
	return
}

// Failed returns the outcomes that are not discharged (canaries excluded).
func (r *Report) Failed() []*Outcome {
	var out []*Outcome
	for _, o := range r.Outcomes {
		if o.Unit.Canary {
			continue
		}
		if o.Status != "proved" && o.Status != "trivial" {
			out = append(out, o)
		}
	}
	sort.Slice(out, func(i, j int) bool { return out[i].Name < out[j].Name })
	return out
}

// CanaryProblems lists canaries that were (wrongly) discharged.
func (r *Report) CanaryProblems() []string {
	var out []string
	seen := map[*Unit]bool{}
	ok := map[*Unit]bool{}
	for _, o := range r.Outcomes {
		if !o.Unit.Canary {
			continue
		}
		seen[o.Unit] = true
		if o.Status == "failed" || o.Status == "unknown" {
			ok[o.Unit] = true
		}
	}
	for u := range seen {
		if !ok[u] {
			out = append(out, fmt.Sprintf("vacuity canary of %s %s was discharged (contradictory assumptions?)", u.Func, u.Instance))
		}
	}
	sort.Strings(out)
	return out
}

// WriteReplay writes the replay artefact for a failed obligation.
func WriteReplay(dir string, prop string, o *Outcome) string {
	os.MkdirAll(dir, 0o755)
	safe := strings.NewReplacer("/", "_", " ", "_", "@", "_", "[", "_", "]", "_", "(", "", ")", "", "*", "", "$", "_", "\"", "", "=", "").Replace(o.Name)
	if len(safe) > 100 {
		safe = safe[:100]
	}
	path := fmt.Sprintf("%s/%s_%s.txt", dir, prop, safe)
	var sb strings.Builder
	fmt.Fprintf(&sb, "property: %s\nobligation: %s\nfunction: %s %s\nkind: %s\nposition: %s\nnote: %s\nstatus: %s (solver %s, %.2fs)\n", prop, o.Name, o.Unit.Func, o.Unit.Instance, o.Kind, o.Pos, o.Note, o.Status, o.Solver, o.Seconds)
	if o.Bounded != "" {
		fmt.Fprintf(&sb, "bounded: %s\n", o.Bounded)
	}
	if o.Sat && len(o.Model) == 0 {
		sb.WriteString("counterexample: the obligation has no free variable; it fails for every input of this unit's shape\n")
	}
	if len(o.Model) > 0 {
		sb.WriteString("counterexample (model of the negated obligation):\n")
		var ks []string
		for k := range o.Model {
			ks = append(ks, k)
		}
		sort.Strings(ks)
		for _, k := range ks {
			fmt.Fprintf(&sb, "  %s = %s\n", k, o.Model[k])
		}
	} else if !o.Sat {
		sb.WriteString("no-failing-input-found: the solver gave no model\n")
		fmt.Fprintf(&sb, "solver output:\n%s\n", o.Output)
	}
	if o.Unit.Replay != nil && o.Sat {
		sb.WriteString("\n--- replay against the real code ---\n")
		sb.WriteString(o.Unit.Replay(o))
	}
	os.WriteFile(path, []byte(sb.String()), 0o644)
	return path
}
