package sx

import (
	"fmt"
	"go/types"
	"math"
	"strings"

	"gocv/smt"

	"golang.org/x/tools/go/ssa"
)

// RegisterIntrinsics installs the models of external functions. Each model
// is an *assumed contract* of code outside /repo (DESIGN §4.3).
var extraIntrinsics []func(m *Machine)

func RegisterIntrinsics(m *Machine) {
	I := m.Intr
	defer func() {
		for _, f := range extraIntrinsics {
			f(m)
		}
	}()
	I["fmt.Sprintf"] = func(p *Path, c *ssa.CallCommon, a []Val) Val {
		return p.Sprintf(a[0].(Str), p.variadic(a[1]))
	}
	I["fmt.Errorf"] = func(p *Path, c *ssa.CallCommon, a []Val) Val {
		args := p.variadic(a[1])
		msg := p.Sprintf(a[0].(Str), args)
		var wrapped Val = Iface{}
		f := a[0].(Str)
		if f.Concrete() && strings.Contains(f.S, "%w") {
			for _, x := range args {
				if i, ok := x.(Iface); ok && i.T != nil && isErrorType(i.T) {
					wrapped = i
				}
			}
		}
		return p.NewError(msg, wrapped)
	}
	I["errors.New"] = func(p *Path, c *ssa.CallCommon, a []Val) Val {
		return p.NewError(a[0].(Str), Iface{})
	}
	I["errors.Is"] = func(p *Path, c *ssa.CallCommon, a []Val) Val {
		e, target := a[0].(Iface), a[1].(Iface)
		for i := 0; i < 32; i++ {
			if e.T == nil {
				return smt.BoolC(target.T == nil)
			}
			eq := p.EqVal(e, target)
			if eq.IsTrue() {
				return smt.True
			}
			if !eq.IsFalse() {
				panic(unsupported("errors.Is on symbolic errors"))
			}
			w, ok := p.unwrapErr(e)
			if !ok {
				return smt.False
			}
			e = w
		}
		return smt.False
	}
	I["fmt.Sprint"] = func(p *Path, c *ssa.CallCommon, a []Val) Val {
		args := p.variadic(a[0])
		f := strings.Repeat("%v", len(args))
		return p.Sprintf(Str{S: f}, args)
	}
	out := func(p *Path, s Str) { p.Out = append(p.Out, s) }
	I["fmt.Printf"] = func(p *Path, c *ssa.CallCommon, a []Val) Val {
		if f, ok := a[0].(Str); ok && f.Concrete() {
			p.OutFmt = append(p.OutFmt, f.S)
		}
		out(p, p.Sprintf(a[0].(Str), p.variadic(a[1])))
		return Tuple{i64(0), Iface{}}
	}
	I["fmt.Print"] = func(p *Path, c *ssa.CallCommon, a []Val) Val {
		args := p.variadic(a[0])
		out(p, p.Sprintf(Str{S: strings.Repeat("%v", len(args))}, args))
		return Tuple{i64(0), Iface{}}
	}
	I["fmt.Println"] = func(p *Path, c *ssa.CallCommon, a []Val) Val {
		args := p.variadic(a[0])
		f := strings.TrimSuffix(strings.Repeat("%v ", len(args)), " ") + "\n"
		out(p, p.Sprintf(Str{S: f}, args))
		return Tuple{i64(0), Iface{}}
	}
	I["fmt.Fprintf"] = func(p *Path, c *ssa.CallCommon, a []Val) Val {
		out(p, p.Sprintf(a[1].(Str), p.variadic(a[2])))
		return Tuple{i64(0), Iface{}}
	}
	I["bytes.Equal"] = func(p *Path, c *ssa.CallCommon, a []Val) Val {
		x, y := a[0].(Slice), a[1].(Slice)
		nx, ok1 := x.Len.Uint64()
		ny, ok2 := y.Len.Uint64()
		if !ok1 || !ok2 {
			panic(unsupported("bytes.Equal on symbolic lengths"))
		}
		if nx != ny {
			return smt.False
		}
		ex, ey := p.SliceElems(x), p.SliceElems(y)
		r := smt.True
		for i := range ex {
			r = smt.And(r, smt.Eq(term(ex[i]), term(ey[i])))
		}
		return r
	}
	I["math.Floor"] = func(p *Path, c *ssa.CallCommon, a []Val) Val {
		if f, ok := a[0].(Float); ok {
			return Float{math.Floor(f.F)}
		}
		if o, ok := a[0].(Opaque); ok && o.Kind == "fquot" {
			return Opaque{Kind: "ffloor", V: o.V}
		}
		panic(unsupported("math.Floor of symbolic value"))
	}
	I["strings.Repeat"] = func(p *Path, c *ssa.CallCommon, a []Val) Val {
		s := a[0].(Str)
		n, ok := ConstInt(a[1])
		if !ok || !s.Concrete() {
			panic(unsupported("strings.Repeat symbolic"))
		}
		if n < 0 {
			p.Assert("strings.Repeat/negative", "panic", smt.False, "", "strings.Repeat: negative count")
			p.Stop("panic")
		}
		return Str{S: strings.Repeat(s.S, int(n))}
	}
	I["strings.Join"] = func(p *Path, c *ssa.CallCommon, a []Val) Val {
		el := p.SliceElems(a[0].(Slice))
		sep := a[1].(Str)
		var r Str
		for i, e := range el {
			if i > 0 {
				r = p.strConcat(r, sep)
			}
			r = p.strConcat(r, e.(Str))
		}
		return r
	}
	I["os.Exit"] = func(p *Path, c *ssa.CallCommon, a []Val) Val {
		p.Ghost["exit"] = a[0]
		p.Stop("exit")
		return nil
	}
}

func isErrorType(t types.Type) bool {
	ms := types.NewMethodSet(t)
	for i := 0; i < ms.Len(); i++ {
		if ms.At(i).Obj().Name() == "Error" {
			return true
		}
	}
	return false
}

func (p *Path) variadic(v Val) []Val {
	s := v.(Slice)
	if s.Obj == 0 {
		return nil
	}
	return p.SliceElems(s)
}

// errType returns the *errors.errorString-like type used for errors created
// by intrinsics: fmt.wrapError (has Unwrap) from the loaded program.
func (p *Path) errTypes() (plain, wrap types.Type) {
	if ep := p.M.Prog.ImportedPackage("errors"); ep != nil {
		if t := ep.Type("errorString"); t != nil {
			plain = types.NewPointer(t.Type())
		}
	}
	if fp := p.M.Prog.ImportedPackage("fmt"); fp != nil {
		if t := fp.Type("wrapError"); t != nil {
			wrap = types.NewPointer(t.Type())
		}
	}
	return
}

// NewError builds a non-nil error value with the given message.
func (p *Path) NewError(msg Str, wrapped Val) Val {
	plain, wrap := p.errTypes()
	if w, ok := wrapped.(Iface); ok && w.T != nil && wrap != nil {
		obj := p.Alloc(&Struct{F: []Val{msg, w}})
		return Iface{T: wrap, V: Ptr{Obj: obj}}
	}
	if plain == nil {
		panic(unsupported("errors package not loaded"))
	}
	obj := p.Alloc(&Struct{F: []Val{msg}})
	return Iface{T: plain, V: Ptr{Obj: obj}}
}

func (p *Path) unwrapErr(e Iface) (Iface, bool) {
	_, wrap := p.errTypes()
	if wrap != nil && types.Identical(e.T, wrap) {
		st := p.Load(e.V.(Ptr), "unwrap").(*Struct)
		return st.F[1].(Iface), true
	}
	return Iface{}, false
}

// ErrorString returns the message of an error value built here, by calling
// its Error method through the interpreter.
func (p *Path) ErrorString(e Iface) Str {
	ms := p.M.Prog.MethodSets.MethodSet(e.T)
	sel := ms.Lookup(nil, "Error")
	if sel == nil {
		return Str{S: "<error>"}
	}
	fn := p.M.Prog.MethodValue(sel)
	r := p.Call(fn, []Val{e.V}, nil, nil)
	return r.(Str)
}

// Sprintf formats. Fully concrete arguments are formatted by the real fmt
// package; "%d"/"%s" of symbolic integers and formatted strings give a
// structured symbolic string; anything else gives an unconstrained string.
func (p *Path) Sprintf(f Str, args []Val) Str {
	if !f.Concrete() {
		return p.unknownStr()
	}
	conc := make([]interface{}, len(args))
	all := true
	for i, a := range args {
		g, ok := p.toGo(a)
		if !ok {
			all = false
			break
		}
		conc[i] = g
	}
	if all {
		return Str{S: fmt.Sprintf(strings.ReplaceAll(f.S, "%w", "%v"), conc...)}
	}
	// structured: only %d, %s, %%, %v verbs without flags
	var sb strings.Builder
	var sargs []*smt.Term
	ai := 0
	s := f.S
	for i := 0; i < len(s); i++ {
		if s[i] != '%' {
			sb.WriteByte(s[i])
			continue
		}
		if i+1 >= len(s) {
			return p.unknownStr()
		}
		v := s[i+1]
		i++
		if v == '%' {
			sb.WriteString("%%")
			continue
		}
		if ai >= len(args) {
			return p.unknownStr()
		}
		a := args[ai]
		ai++
		if iv, ok := a.(Iface); ok {
			a = iv.V
			if iv.T == nil {
				return p.unknownStr()
			}
		}
		switch x := a.(type) {
		case *smt.Term:
			if x.S.K != smt.KBV || (v != 'd' && v != 'v') {
				return p.unknownStr()
			}
			if k, ok := x.Uint64(); ok {
				sb.WriteString(fmt.Sprintf("%d", k))
			} else {
				sb.WriteString("%d")
				sargs = append(sargs, x)
			}
		case Str:
			if v != 's' && v != 'v' {
				return p.unknownStr()
			}
			if x.Concrete() {
				sb.WriteString(strings.ReplaceAll(x.S, "%", "%%"))
			} else if x.Fmt != "" {
				sb.WriteString(x.Fmt)
				sargs = append(sargs, x.Args...)
			} else {
				return p.unknownStr()
			}
		default:
			return p.unknownStr()
		}
	}
	if len(sargs) == 0 {
		return Str{S: strings.ReplaceAll(sb.String(), "%%", "%")}
	}
	return Str{Fmt: sb.String(), Args: sargs}
}

func (p *Path) unknownStr() Str {
	p.freshN++
	return p.NewSymStr(fmt.Sprintf("str!%d", p.freshN))
}

// toGo converts a fully concrete value into a host value for fmt.
func (p *Path) toGo(v Val) (interface{}, bool) {
	switch x := v.(type) {
	case Iface:
		if x.T == nil {
			return nil, true
		}
		// Stringer / error
		if st, ok := x.V.(Str); ok && !st.Concrete() {
			return nil, false
		}
		if isErrorType(x.T) {
			s := p.ErrorString(x)
			if !s.Concrete() {
				return nil, false
			}
			return fmt.Errorf("%s", s.S), true
		}
		if t, ok := x.V.(*smt.Term); ok {
			if w, sg, isI := isInt(x.T); isI {
				if sel := p.M.Prog.MethodSets.MethodSet(x.T).Lookup(nil, "String"); sel != nil {
					k, okc := t.Uint64()
					if !okc {
						return nil, false
					}
					fn := p.M.Prog.MethodValue(sel)
					sh := uint(64 - w)
					recv := x.V
					return hostInt{u: k, i: (int64(k) << sh) >> sh, signed: sg, str: func() string {
						r := p.Call(fn, []Val{recv}, nil, nil)
						if s, ok := r.(Str); ok && s.Concrete() {
							return s.S
						}
						return "<symbolic>"
					}}, true
				}
			}
		}
		if sel := p.M.Prog.MethodSets.MethodSet(x.T).Lookup(nil, "String"); sel != nil {
			fn := p.M.Prog.MethodValue(sel)
			if fn != nil && fn.Signature.Params().Len() == 0 {
				r := p.Call(fn, []Val{x.V}, nil, nil)
				if s, ok := r.(Str); ok && s.Concrete() {
					return s.S, true
				}
				return nil, false
			}
		}
		if t, ok := x.V.(*smt.Term); ok {
			if w, sg, ok := isInt(x.T); ok {
				k, okc := t.Uint64()
				if !okc {
					return nil, false
				}
				if sg {
					sh := uint(64 - w)
					return (int64(k) << sh) >> sh, true
				}
				switch w {
				case 8:
					return uint8(k), true
				case 16:
					return uint16(k), true
				case 32:
					return uint32(k), true
				}
				return k, true
			}
			if t.IsTrue() {
				return true, true
			}
			if t.IsFalse() {
				return false, true
			}
			return nil, false
		}
		return p.toGo(x.V)
	case *smt.Term:
		if k, ok := x.Uint64(); ok {
			return k, true
		}
		if x.IsTrue() {
			return true, true
		}
		if x.IsFalse() {
			return false, true
		}
		return nil, false
	case Str:
		if x.Concrete() {
			return x.S, true
		}
		return nil, false
	case Float:
		return x.F, true
	case Slice:
		if _, ok := x.Len.Uint64(); !ok {
			return nil, false
		}
		var out []interface{}
		for _, e := range p.SliceElems(x) {
			g, ok := p.toGo(e)
			if !ok {
				return nil, false
			}
			out = append(out, g)
		}
		return out, true
	}
	return fmt.Sprintf("<%T>", v), true
}

// hostInt is an integer of a named type that has a String method: %d-like
// verbs print the number, %s and %v call the method (as package fmt does).
type hostInt struct {
	u      uint64
	i      int64
	signed bool
	str    func() string
}

func (h hostInt) Format(f fmt.State, verb rune) {
	switch verb {
	case 's', 'v':
		fmt.Fprint(f, h.str())
	default:
		format := "%" + string(verb)
		if w, ok := f.Width(); ok {
			pad := ""
			if f.Flag('0') {
				pad = "0"
			}
			if f.Flag('-') {
				pad = "-"
			}
			format = fmt.Sprintf("%%%s%d%c", pad, w, verb)
		}
		if h.signed {
			fmt.Fprintf(f, format, h.i)
		} else {
			fmt.Fprintf(f, format, h.u)
		}
	}
}

func init() {
	extraIntrinsics = append(extraIntrinsics, func(m *Machine) {
		// sort.Slice: insertion sort through the less closure. Assumed
		// contract of the real function: the result is a permutation sorted
		// with respect to less (which sort is used does not matter for a
		// strict weak order; for other orders this is one admissible result).
		m.Intr["sort.Slice"] = func(p *Path, c *ssa.CallCommon, a []Val) Val {
			iv := a[0].(Iface)
			sl, ok := iv.V.(Slice)
			if !ok {
				panic(unsupported("sort.Slice of non-slice"))
			}
			less := a[1].(*Closure)
			n, ok := sl.Len.Uint64()
			if !ok {
				panic(unsupported("sort.Slice on a slice of symbolic length"))
			}
			off, _ := sl.Off.Uint64()
			swap := func(i, j uint64) {
				arr := p.Heap[sl.Obj].(*Arr)
				e := append([]Val{}, arr.Elems...)
				e[off+i], e[off+j] = e[off+j], e[off+i]
				p.Heap[sl.Obj] = &Arr{Elems: e, ElemT: arr.ElemT}
			}
			for i := uint64(1); i < n; i++ {
				for j := i; j > 0; j-- {
					r := p.CallClosure(less, []Val{i64(int64(j)), i64(int64(j - 1))}, nil)
					if !p.Decide(term(r)) {
						break
					}
					swap(j, j-1)
				}
			}
			return nil
		}
	})
}
