package sx

import (
	"fmt"
	"go/types"
	"os"
	"sort"
	"strings"

	"golang.org/x/tools/go/packages"
	"golang.org/x/tools/go/ssa"
	"golang.org/x/tools/go/ssa/ssautil"
)

// Program is the loaded repository.
type Program struct {
	M        *Machine
	Pkgs     []*packages.Package
	SSA      map[string]*ssa.Package
	InitLog  []string
	ByName   map[string]*ssa.Function // FuncName -> function (incl. anonymous and instantiations)
	RepoDir  string
	LoadSecs float64
}

// Load loads ./... of dir with the verif tag and runs the package
// initialisers of the module (and of non-standard dependencies) concretely.
func Load(dir string, extraPatterns ...string) (*Program, error) {
	cfg := &packages.Config{Mode: packages.LoadAllSyntax, Dir: dir, BuildFlags: []string{"-tags=verif"},
		Env: append(os.Environ(), "GOFLAGS=-mod=mod", "GOPROXY=off", "GOSUMDB=off", "GOTOOLCHAIN=local")}
	pats := append([]string{"./..."}, extraPatterns...)
	pkgs, err := packages.Load(cfg, pats...)
	if err != nil {
		return nil, err
	}
	var errs []string
	packages.Visit(pkgs, nil, func(p *packages.Package) {
		for _, e := range p.Errors {
			errs = append(errs, e.Error())
		}
	})
	if len(errs) > 0 {
		return nil, fmt.Errorf("package errors:\n%s", strings.Join(errs, "\n"))
	}
	prog, spkgs := ssautil.AllPackages(pkgs, ssa.InstantiateGenerics|ssa.BareInits)
	prog.Build()
	m := &Machine{Prog: prog, Intr: map[string]Intrinsic{}, BaseHeap: map[int]Val{}, Globals: map[*ssa.Global]int{}, MaxSteps: 20_000_000, LoopBound: 0}
	m.NoOrderPrune = os.Getenv("GOCV_NOPRUNE") != ""
	m.NoMerge = os.Getenv("GOCV_NOMERGE") != ""
	P := &Program{M: m, Pkgs: pkgs, SSA: map[string]*ssa.Package{}, ByName: map[string]*ssa.Function{}, RepoDir: dir}
	_ = spkgs
	for _, sp := range prog.AllPackages() {
		P.SSA[sp.Pkg.Path()] = sp
	}
	RegisterIntrinsics(m)
	// initialisation order: dependencies first
	var order []*packages.Package
	seen := map[string]bool{}
	var visit func(p *packages.Package)
	visit = func(p *packages.Package) {
		if seen[p.PkgPath] {
			return
		}
		seen[p.PkgPath] = true
		var imps []string
		for k := range p.Imports {
			imps = append(imps, k)
		}
		sort.Strings(imps)
		for _, k := range imps {
			visit(p.Imports[k])
		}
		order = append(order, p)
	}
	sort.Slice(pkgs, func(i, j int) bool { return pkgs[i].PkgPath < pkgs[j].PkgPath })
	for _, p := range pkgs {
		visit(p)
	}
	path := &Path{M: m, Heap: m.BaseHeap, Ghost: map[string]Val{}, NoSafety: true}
	for _, pk := range order {
		if !initWanted(pk.PkgPath) {
			continue
		}
		sp := P.SSA[pk.PkgPath]
		if sp == nil {
			continue
		}
		// allocate globals
		var names []string
		for n, mem := range sp.Members {
			if _, ok := mem.(*ssa.Global); ok {
				names = append(names, n)
			}
		}
		sort.Strings(names)
		for _, n := range names {
			g := sp.Members[n].(*ssa.Global)
			t := g.Type().Underlying().(*types.Pointer).Elem()
			func() {
				defer func() {
					if r := recover(); r != nil {
						if _, ok := r.(Unsupported); ok {
							return
						}
						panic(r)
					}
				}()
				m.Globals[g] = path.Alloc(Zero(t))
			}()
		}
		initFn := sp.Func("init")
		if initFn == nil {
			continue
		}
		func() {
			defer func() {
				if r := recover(); r != nil {
					switch e := r.(type) {
					case Unsupported:
						P.InitLog = append(P.InitLog, fmt.Sprintf("init of %s incomplete: %s", pk.PkgPath, e.Msg))
					case pathEnd:
						P.InitLog = append(P.InitLog, fmt.Sprintf("init of %s stopped: %s", pk.PkgPath, e.reason))
					default:
						panic(r)
					}
				}
			}()
			path.Call(initFn, nil, nil, nil)
		}()
	}
	m.BaseNext = path.Next
	if os.Getenv("GOCV_HEAPSTAT") != "" {
		fmt.Fprintf(os.Stderr, "base heap: %d objects\n", len(m.BaseHeap))
	}
	// index functions
	for fn := range ssautil.AllFunctions(prog) {
		if fn.Pkg == nil && fn.Origin() == nil && fn.Parent() == nil {
			continue
		}
		n := FuncName(fn)
		P.ByName[n] = fn
	}
	return P, nil
}

func initWanted(path string) bool {
	if path == "mltwist" || strings.HasPrefix(path, "mltwist/") {
		return true
	}
	if strings.HasPrefix(path, "github.com/zyedidia/generic") {
		return true
	}
	if strings.HasPrefix(path, "gocvstubs") {
		return true
	}
	return false
}

// Func finds a function by its contract name.
func (P *Program) Func(name string) *ssa.Function {
	if f, ok := P.ByName[name]; ok {
		return f
	}
	return nil
}

// FuncsMatching lists function names with the given prefix (sorted).
func (P *Program) FuncsMatching(prefix string) []string {
	var out []string
	for n := range P.ByName {
		if strings.HasPrefix(n, prefix) {
			out = append(out, n)
		}
	}
	sort.Strings(out)
	return out
}
