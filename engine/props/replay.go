package props

import (
	"bytes"
	"context"
	"encoding/json"
	"fmt"
	"math/big"
	"os"
	"os/exec"
	"path/filepath"
	"strings"
	"time"

	"gocv/vc"
)

// Replay of counterexamples against the real code.
//
// A replay is a Go test generated from the solver's model; it is injected into
// the real package with `go test -overlay` (nothing is written into the
// repository) and judges the real code with an independent, naive oracle that
// is part of the generated test. The test FAILS when the real code violates the
// property on the model's input: that confirms the counterexample.

// RunOverlayTest runs testSrc as <repo>/<pkgDir>/zz_gocv_replay_test.go.
// It returns the combined output and whether the test failed.
func RunOverlayTest(repoDir, pkgDir, testSrc string) (string, bool, error) {
	tmp, err := os.MkdirTemp("", "gocv-replay-")
	if err != nil {
		return "", false, err
	}
	defer os.RemoveAll(tmp)
	tf := filepath.Join(tmp, "zz_gocv_replay_test.go")
	if err := os.WriteFile(tf, []byte(testSrc), 0o644); err != nil {
		return "", false, err
	}
	ov := map[string]map[string]string{"Replace": {filepath.Join(repoDir, pkgDir, "zz_gocv_replay_test.go"): tf}}
	data, _ := json.Marshal(ov)
	of := filepath.Join(tmp, "ov.json")
	os.WriteFile(of, data, 0o644)
	ctx, cancel := context.WithTimeout(context.Background(), 180*time.Second)
	defer cancel()
	cmd := exec.CommandContext(ctx, "go", "test", "-overlay", of, "-vet=off", "-count=1", "-timeout", "60s", "-run", "TestGocvReplay", "./"+pkgDir+"/")
	cmd.Dir = repoDir
	cmd.Env = append(os.Environ(), "GOFLAGS=-mod=mod", "GOPROXY=off", "GOSUMDB=off", "GOTOOLCHAIN=local")
	var out bytes.Buffer
	cmd.Stdout = &out
	cmd.Stderr = &out
	err = cmd.Run()
	o := out.String()
	if len(o) > 6000 {
		o = o[:6000] + "\n...(truncated)"
	}
	if err == nil {
		return o, false, nil
	}
	if strings.Contains(o, "--- FAIL") || strings.Contains(o, "panic:") || strings.Contains(o, "FAIL\t") {
		if strings.Contains(o, "[build failed]") || strings.Contains(o, "[setup failed]") {
			return o, false, fmt.Errorf("replay test did not build")
		}
		return o, true, nil
	}
	return o, false, err
}

// replayVerdict formats the result of a replay for the replay file.
func replayVerdict(repoDir, pkgDir, src string) string {
	out, failed, err := RunOverlayTest(repoDir, pkgDir, src)
	var sb strings.Builder
	switch {
	case err != nil:
		fmt.Fprintf(&sb, "replay: could not be run (%v)\n", err)
	case failed:
		sb.WriteString("replay: CONFIRMED on the real code (the generated test fails)\n")
	default:
		sb.WriteString("replay: NOT REPRODUCED on the real code (the generated test passes; the counterexample may depend on a modelling assumption)\n")
	}
	sb.WriteString("--- go test output ---\n")
	sb.WriteString(out)
	sb.WriteString("\n--- generated test (package directory " + pkgDir + ") ---\n")
	sb.WriteString(src)
	return sb.String()
}

// modelUint returns the model value of a variable (0 when the model leaves it
// unconstrained).
func modelBig(o *vc.Outcome, name string) *big.Int {
	s, ok := o.Model[name]
	if !ok {
		return new(big.Int)
	}
	s = strings.TrimSpace(s)
	switch {
	case strings.HasPrefix(s, "#x"):
		n, _ := new(big.Int).SetString(s[2:], 16)
		if n != nil {
			return n
		}
	case strings.HasPrefix(s, "#b"):
		n, _ := new(big.Int).SetString(s[2:], 2)
		if n != nil {
			return n
		}
	case s == "true":
		return big.NewInt(1)
	case s == "false":
		return new(big.Int)
	default:
		n, ok := new(big.Int).SetString(s, 10)
		if ok {
			return n
		}
	}
	return new(big.Int)
}

func modelUint(o *vc.Outcome, name string) uint64 { return modelBig(o, name).Uint64() }

// leBytes renders the low n bytes of v as a Go byte-slice literal.
func leBytes(v *big.Int, n int) string {
	var ps []string
	x := new(big.Int).Set(v)
	for i := 0; i < n; i++ {
		b := new(big.Int).And(x, big.NewInt(255))
		ps = append(ps, fmt.Sprintf("0x%02x", b.Uint64()))
		x.Rsh(x, 8)
	}
	return "[]byte{" + strings.Join(ps, ", ") + "}"
}
