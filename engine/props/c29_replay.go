package props

import (
	"fmt"
	"strings"

	"gocv/vc"
)

func (c *Ctx) formatReplay(n, indent, chars int) func(o *vc.Outcome) string {
	return func(o *vc.Outcome) string {
		bs := make([]string, n)
		for i := range bs {
			bs[i] = fmt.Sprintf("0x%02x", modelUint(o, fmt.Sprintf("s.%d", i)))
		}
		src := fmt.Sprintf(`package consoleui

import (
	"strings"
	"testing"
	"time"
)

func TestGocvReplay(t *testing.T) {
	s := string([]byte{%s})
	indent, chars := %d, %d
	done := make(chan string, 1)
	go func() { done <- format(s, indent, chars+8*indent) }()
	var out string
	select {
	case out = <-done:
	case <-time.After(5 * time.Second):
		t.Fatalf("format(%%q, %%d, %%d) does not terminate", s, indent, chars+8*indent)
	}
	if out != "" && !strings.HasSuffix(out, "\n") {
		t.Fatalf("last line not newline-terminated: %%q", out)
	}
	lines := strings.Split(strings.TrimSuffix(out, "\n"), "\n")
	if out == "" {
		lines = nil
	}
	pos := 0
	prevEnd := -1
	prevStart := -1
	for _, ln := range lines {
		if len(ln) < indent || ln[:indent] != strings.Repeat("\t", indent) {
			t.Fatalf("line %%q does not start with %%d tabs", ln, indent)
		}
		text := ln[indent:]
		if len(text) < 1 || len(text) > chars {
			t.Fatalf("line text %%q has %%d bytes, allowed 1..%%d", text, len(text), chars)
		}
		// skipped bytes must be spaces
		start := pos
		for start < len(s) && !strings.HasPrefix(s[start:], text) {
			if s[start] != ' ' {
				t.Fatalf("output %%q loses or reorders characters of %%q (at byte %%d)", out, s, start)
			}
			start++
		}
		if start+len(text) > len(s) {
			t.Fatalf("output %%q is not made of consecutive pieces of %%q", out, s)
		}
		if prevEnd == start && s[prevEnd-1] != ' ' && s[start] != ' ' {
			prev := s[prevStart:prevEnd]
			if strings.Contains(prev, " ") || len(prev) != chars {
				t.Fatalf("word split after %%q although the line is not a single too-long word (output %%q)", prev, out)
			}
		}
		prevStart, prevEnd = start, start+len(text)
		pos = prevEnd
	}
	if strings.Trim(s[pos:], " ") != "" {
		t.Fatalf("output %%q drops the end of %%q", out, s)
	}
}
`, strings.Join(bs, ", "), indent, chars)
		return replayVerdict(c.P.RepoDir, "internal/consoleui", src)
	}
}
