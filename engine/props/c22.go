package props

import (
	"fmt"
	"go/ast"
	"go/types"
	"strings"

	"gocv/smt"
	"gocv/spec"
	"gocv/sx"
	"gocv/vc"

	"golang.org/x/tools/go/ssa"
)

// C22: console input. A session is a script of input lines: a concrete prefix
// that brings the UI into a mode and state, then one line built from a
// template (literal text and runs of arbitrary bytes). UI.Run is executed on
// the real UI objects; the path ends when the script is exhausted.

type lineTemplate []string // segments: "?n" = n arbitrary bytes, anything else literal

func (t lineTemplate) String() string { return strings.Join(t, "") }

type uiSession struct {
	Prog   int
	Prefix []string
	Line   lineTemplate
}

func (s uiSession) String() string {
	return fmt.Sprintf("%s %q then %q", uiPrograms()[s.Prog].Name, s.Prefix, s.Line.String())
}

func uiSessions(tier string) []uiSession {
	var out []uiSession
	sym := func(n int) string { return fmt.Sprintf("?%d", n) }
	maxSym := 4
	if tier == "thorough" {
		maxSym = 6
	}
	// mode prefixes per program
	type ctx struct {
		prog   int
		prefix []string
		cmds   []string
	}
	dis := []string{"down", "up", "move", "bounds", "find", "goto", "entrypoint", "alllines", "emulate", "quit", "help"}
	emu := []string{"forward", "memories", "memory", "regmod", "quit", "help"}
	mem := []string{"down", "up", "goto", "address", "quit", "help"}
	var ctxs []ctx
	for pi := range uiPrograms() {
		ctxs = append(ctxs, ctx{pi, nil, dis})
	}
	ctxs = append(ctxs,
		ctx{1, []string{"m 1 2"}, dis},                          // after a rejected or accepted instruction move
		ctx{2, []string{"m 0 6"}, dis},                          // after a block move
		ctx{0, []string{"d 1", "e"}, emu},                       // emulator, nothing executed
		ctx{0, []string{"d 1", "e", "s", "5"}, emu},             // emulator after one step (x1 typed in)
		ctx{2, []string{"d 3", "e", "s", "5", "s", "7"}, emu},   // two steps
		ctx{0, []string{"d 1", "e", "m memory"}, mem},           // memory view of the program memory
		ctx{0, []string{"d 1", "e", "m nosuchmemory"}, mem},     // memory view of a memory that does not exist
		ctx{3, []string{"d 2", "e", "s", "9", "3", "m memory"}, mem}, // after a store
	)
	for _, cx := range ctxs {
		// fully arbitrary short lines (spacing, empty pieces, short aliases)
		if len(cx.prefix) == 0 && cx.prog < 2 || len(cx.prefix) > 0 {
			for n := 0; n <= maxSym; n++ {
				if n > 3 && len(cx.prefix) > 0 && tier != "thorough" {
					continue
				}
				out = append(out, uiSession{cx.prog, cx.prefix, lineTemplate{sym(n)}})
			}
		}
		for _, k := range cx.cmds {
			out = append(out,
				uiSession{cx.prog, cx.prefix, lineTemplate{k}},
				uiSession{cx.prog, cx.prefix, lineTemplate{k, " ", sym(2)}},
				uiSession{cx.prog, cx.prefix, lineTemplate{k, " ", sym(1), " ", sym(2)}},
				uiSession{cx.prog, cx.prefix, lineTemplate{k, "  ", sym(1), " ", sym(1), " ", sym(1)}},
				uiSession{cx.prog, cx.prefix, lineTemplate{k, " 9223372036854775807"}},
				uiSession{cx.prog, cx.prefix, lineTemplate{k, " 1 9223372036854775808"}},
			)
		}
	}
	return out
}

func templateStr(t lineTemplate, name string) sx.Str {
	var bs []*smt.Term
	k := 0
	for _, seg := range t {
		if strings.HasPrefix(seg, "?") {
			var n int
			fmt.Sscanf(seg[1:], "%d", &n)
			for i := 0; i < n; i++ {
				bs = append(bs, smt.Var(fmt.Sprintf("%s.%d", name, k), smt.BV(8)))
				k++
			}
			continue
		}
		for i := 0; i < len(seg); i++ {
			bs = append(bs, smt.BVU(uint64(seg[i]), 8))
		}
	}
	if len(bs) == 0 {
		return sx.Str{}
	}
	return sx.MkBytesStr(bs)
}

func (c *Ctx) installUIBuiltins(ev *spec.Eval, world *uiWorld) {
	B := ev.Builtins
	p := ev.P
	uiT := types.NewPointer(c.pkgType("mltwist/internal/consoleui", "UI"))
	B["ui_of_session"] = func(ev *spec.Eval, a []ast.Expr) spec.TV {
		return spec.TV{V: world.ui, T: uiT}
	}
	// typed(lines...): the script of standard input
	B["session_typed"] = func(ev *spec.Eval, a []ast.Expr) spec.TV {
		return spec.TV{V: smt.True}
	}
	_ = p
}

func uiSessionUnits(c *Ctx, contract string, sessions []uiSession, mk func(us *UnitSpec, s uiSession, world *uiWorld)) []*vc.Unit {
	parser := c.rv64Parser()
	var idx []int64
	for i := range sessions {
		idx = append(idx, int64(i))
	}
	c.Sets["SESSIONS"] = idx
	return c.ContractUnits(contract, func(us *UnitSpec) {
		s := sessions[us.Enum["s"]]
		us.InstanceName = fmt.Sprintf("s=%d %s", us.Enum["s"], s)
		us.Bounded = "console sessions of the corpus (line templates with arbitrary bytes)"
		us.MaxPaths = 400000
		world := &uiWorld{}
		us.Prepare = func(p *sx.Path) { *world = *c.buildUIWorld(p, uiPrograms()[s.Prog], parser) }
		us.CallHook = c.valueHook
		us.Inputs = func(p *sx.Path, ev *spec.Eval, fn *ssa.Function) map[string]sx.Val {
			c.installUIBuiltins(ev, world)
			c.installStrBuiltins(ev)
			var script []sx.Str
			for _, l := range s.Prefix {
				script = append(script, sx.Str{S: l})
			}
			script = append(script, templateStr(s.Line, "line"))
			p.Ghost["stdin"] = script
			p.Ghost["stdin.stop"] = true
			// a terminal of arbitrary height up to 64 lines
			h := smt.Var("term.height", smt.BV(64))
			p.Assume(smt.BVUle(h, smt.BVU(64, 64)))
			p.Ghost["term.height"] = h
			env := c.leafEnv(p)
			env.BigLimit = 0
			p.Ghost["env"] = env
			return nil
		}
		if mk != nil {
			mk(us, s, world)
		}
	})
}

func init() {
	register(&Prop{
		ID:        "C22",
		Level:     "other",
		Technique: "contract-based deductive verification (safety obligations: index, slice, nil, type assertion, division, allocation, explicit panic) of the real console UI executed on scripted sessions whose last line contains arbitrary bytes; currently bounded in the session corpus",
		MinObls:   2000,
		Claim:     "UI.Run is executed on the real UI, mode, view, code-model, emulator and memory objects for every session of the corpus: a concrete prefix of lines that reaches a mode and state (disassembler, after instruction and block moves; emulator before and after steps; memory view of an existing and of a missing memory), followed by one line made of literal command words and runs of arbitrary bytes (every command of the mode with 0-3 arguments of arbitrary bytes, surplus arguments, doubled spaces, numbers at the ends of the int range) or of arbitrary bytes only, on a terminal of arbitrary height up to 64 lines. No index, slice, nil-dereference, nil-function call, type assertion, division, allocation or explicit panic obligation may be reachable; the screen is re-rendered after the line.",
		Note:      "bounded stand-in: sessions of the corpus; the bytes of the last line are symbolic (all parse outcomes of strings.Split, the command map, strconv.Atoi, the address and value parsers are explored). Commands reading further input end the path at the end of the script. I/O errors and resource exhaustion are not modelled.",
		Assumptions: []string{
			"bounded: console sessions of the corpus (4 programs; prefixes of at most 6 lines; one line with at most 4, thorough 6, arbitrary bytes)",
			"terminal.GetSize returns an error or an arbitrary size (height at most 64); regexp.CompilePOSIX fails or succeeds arbitrarily and MatchString is an arbitrary predicate of the text; strings.Split, strings.Join, strings.Repeat, strings.Builder, strconv and math/big behave as documented (assumed contracts)",
			"the floating-point window computation int(math.Floor(float64(n)/(math.Phi+1))) is evaluated in 80-bit fixed point (exact for 0 <= n < 2^31)",
			"calls of expreval.* are replaced by their contracts (C10), expr.ConstUint by its contract (C27)",
			"symbolic strings are ranged over byte-wise (bytes below 0x80 assumed where a string is ranged over rune by rune)",
		},
		Build: func(c *Ctx) []*vc.Unit {
			return uiSessionUnits(c, "(*consoleui.UI).Run", uiSessions(c.Tier), nil)
		},
	})
}
