package props

import (
	"fmt"
	"go/types"
	"math/rand"
	"sort"
	"strings"

	"gocv/ir"
	"gocv/smt"
	"gocv/sx"
)

// The dependency / reordering harness (C05, C06, C07): blocks are sequences
// over an alphabet of instruction templates. Every template is a lifted
// instruction of concrete shape (the effects the RISC-V lifter produces after
// constant folding for a representative instruction of that kind), so the
// real newInstruction, the five dependency finders, Move, LowerBound,
// UpperBound and Address are executed on it. Register and memory contents are
// symbolic when block behaviour is compared.

type insTemplate struct {
	Name   string
	Type   uint64   // model.Type flags: 1 MemOrder, 2 CPUStateChange, 4 Syscall
	In     []string // registers read
	Out    []string // registers written ("ip" = instruction pointer)
	Loads  []string // memory spaces read
	Stores []string // memory spaces written
	Term   bool     // has a real jump target: only allowed as the last instruction
	Len    int      // length in bytes (0 = 4)
	// Effects builds the effect list for the instruction at address a
	// (target: a constant jump target for branches).
	Effects func(b *effBuilder, a, target uint64) []sx.Val
}

type effBuilder struct {
	c *Ctx
	p *sx.Path
}

const ipName = "#r:w:ip"

func (b *effBuilder) w8(w int) sx.Val { return smt.BVU(uint64(w), 8) }
func (b *effBuilder) reg(k string, w int) sx.Val {
	return sx.Iface{T: b.c.IR.RegLoad, V: &sx.Struct{F: []sx.Val{sx.Str{S: k}, b.w8(w)}}}
}
func (b *effBuilder) cst(v uint64, w int) sx.Val {
	bs := make([]*smt.Term, w)
	for i := range bs {
		bs[i] = smt.BVU((v>>(8*uint(i)))&0xff, 8)
	}
	return b.c.IR.MkConst(b.p, bs)
}
func (b *effBuilder) bin(op int, x, y sx.Val, w int) sx.Val {
	return sx.Iface{T: b.c.IR.Binary, V: &sx.Struct{F: []sx.Val{smt.BVU(uint64(op), 8), x, y, b.w8(w)}}}
}
func (b *effBuilder) less(x, y, t, f sx.Val, w int) sx.Val {
	return sx.Iface{T: b.c.IR.Less, V: &sx.Struct{F: []sx.Val{x, y, t, f, b.w8(w)}}}
}
func (b *effBuilder) mload(k string, addr sx.Val, w int) sx.Val {
	return sx.Iface{T: b.c.IR.MemLoad, V: &sx.Struct{F: []sx.Val{sx.Str{S: k}, addr, b.w8(w)}}}
}
func (b *effBuilder) rstore(val sx.Val, k string, w int) sx.Val {
	return sx.Iface{T: b.c.IR.RegStore, V: &sx.Struct{F: []sx.Val{val, sx.Str{S: k}, b.w8(w)}}}
}
func (b *effBuilder) mstore(val sx.Val, k string, addr sx.Val, w int) sx.Val {
	return sx.Iface{T: b.c.IR.MemStore, V: &sx.Struct{F: []sx.Val{val, sx.Str{S: k}, addr, b.w8(w)}}}
}

func insAlphabet() []insTemplate {
	E := func(f func(b *effBuilder, a, t uint64) []sx.Val) func(b *effBuilder, a, t uint64) []sx.Val { return f }
	return []insTemplate{
		{Name: "addi x1,x1,1", In: []string{"x1"}, Out: []string{"x1"}, Effects: E(func(b *effBuilder, a, t uint64) []sx.Val {
			return []sx.Val{b.rstore(b.bin(1, b.reg("x1", 8), b.cst(1, 8), 8), "x1", 8)}
		})},
		{Name: "mv x2,x1", In: []string{"x1"}, Out: []string{"x2"}, Effects: E(func(b *effBuilder, a, t uint64) []sx.Val {
			return []sx.Val{b.rstore(b.reg("x1", 8), "x2", 8)}
		})},
		{Name: "li x1,5", Len: 2, Out: []string{"x1"}, Effects: E(func(b *effBuilder, a, t uint64) []sx.Val {
			return []sx.Val{b.rstore(b.cst(5, 8), "x1", 8)}
		})},
		{Name: "li x2,7", Out: []string{"x2"}, Effects: E(func(b *effBuilder, a, t uint64) []sx.Val {
			return []sx.Val{b.rstore(b.cst(7, 8), "x2", 8)}
		})},
		{Name: "sd x2,0(x1)", In: []string{"x1", "x2"}, Stores: []string{"m"}, Effects: E(func(b *effBuilder, a, t uint64) []sx.Val {
			return []sx.Val{b.mstore(b.reg("x2", 8), "m", b.reg("x1", 8), 8)}
		})},
		{Name: "ld x1,0(x2)", In: []string{"x2"}, Out: []string{"x1"}, Loads: []string{"m"}, Effects: E(func(b *effBuilder, a, t uint64) []sx.Val {
			return []sx.Val{b.rstore(b.mload("m", b.reg("x2", 8), 8), "x1", 8)}
		})},
		{Name: "fence", Type: 1, Effects: E(func(b *effBuilder, a, t uint64) []sx.Val { return nil })},
		{Name: "ecall", Type: 4, Effects: E(func(b *effBuilder, a, t uint64) []sx.Val { return nil })},
		{Name: "auipc x2", Out: []string{"x2"}, Effects: E(func(b *effBuilder, a, t uint64) []sx.Val {
			return []sx.Val{b.rstore(b.cst(a+0x1000, 8), "x2", 8)}
		})},
		{Name: "jal x1,+4", Out: []string{"x1"}, Effects: E(func(b *effBuilder, a, t uint64) []sx.Val {
			return []sx.Val{b.rstore(b.cst(a+4, 8), "x1", 8), b.rstore(b.cst(a+4, 8), ipName, 8)}
		})},
		{Name: "add x1,x1,x2", In: []string{"x1", "x2"}, Out: []string{"x1"}, Effects: E(func(b *effBuilder, a, t uint64) []sx.Val {
			return []sx.Val{b.rstore(b.bin(1, b.reg("x1", 8), b.reg("x2", 8), 8), "x1", 8)}
		})},
		{Name: "nop", Len: 2, Effects: E(func(b *effBuilder, a, t uint64) []sx.Val { return nil })},
		{Name: "csrrw x2,c1,x0", Type: 2, In: []string{"csr1"}, Out: []string{"x2"}, Effects: E(func(b *effBuilder, a, t uint64) []sx.Val {
			return []sx.Val{b.rstore(b.reg("csr1", 8), "x2", 8)}
		})},
		{Name: "sw x1,m2", In: []string{"x1"}, Stores: []string{"m2"}, Effects: E(func(b *effBuilder, a, t uint64) []sx.Val {
			return []sx.Val{b.mstore(b.reg("x1", 8), "m2", b.cst(0x100, 8), 4)}
		})},
		{Name: "lw x2,0(x1)", In: []string{"x1"}, Out: []string{"x2"}, Loads: []string{"m"}, Effects: E(func(b *effBuilder, a, t uint64) []sx.Val {
			return []sx.Val{b.rstore(b.mload("m", b.reg("x1", 8), 4), "x2", 8)}
		})},
		{Name: "sd x1,8(x2)", In: []string{"x1", "x2"}, Stores: []string{"m"}, Effects: E(func(b *effBuilder, a, t uint64) []sx.Val {
			return []sx.Val{b.mstore(b.reg("x1", 8), "m", b.bin(1, b.reg("x2", 8), b.cst(8, 8), 8), 8)}
		})},
		{Name: "jal x2,+4", Out: []string{"x2"}, Effects: E(func(b *effBuilder, a, t uint64) []sx.Val {
			return []sx.Val{b.rstore(b.cst(a+4, 8), "x2", 8), b.rstore(b.cst(a+4, 8), ipName, 8)}
		})},
		{Name: "amoadd.d x1,x1,(x1)", Type: 1, In: []string{"x1"}, Out: []string{"x1"}, Loads: []string{"m"}, Stores: []string{"m"}, Effects: E(func(b *effBuilder, a, t uint64) []sx.Val {
			return []sx.Val{b.rstore(b.mload("m", b.reg("x1", 8), 8), "x1", 8), b.mstore(b.bin(1, b.mload("m", b.reg("x1", 8), 8), b.reg("x1", 8), 8), "m", b.reg("x1", 8), 8)}
		})},
		// terminators
		{Name: "bgeu x1,x2,T", In: []string{"x1", "x2"}, Out: []string{"ip"}, Term: true, Effects: E(func(b *effBuilder, a, t uint64) []sx.Val {
			return []sx.Val{b.rstore(b.less(b.reg("x1", 8), b.reg("x2", 8), b.cst(a+4, 8), b.cst(t, 8), 8), ipName, 8)}
		})},
		{Name: "bltu x1,x2,T", In: []string{"x1", "x2"}, Out: []string{"ip"}, Term: true, Effects: E(func(b *effBuilder, a, t uint64) []sx.Val {
			return []sx.Val{b.rstore(b.less(b.reg("x1", 8), b.reg("x2", 8), b.cst(t, 8), b.cst(a+4, 8), 8), ipName, 8)}
		})},
		{Name: "jr x1", In: []string{"x1"}, Out: []string{"ip"}, Term: true, Effects: E(func(b *effBuilder, a, t uint64) []sx.Val {
			return []sx.Val{b.rstore(b.reg("x1", 8), ipName, 8)}
		})},
		{Name: "j T", Out: []string{"ip"}, Term: true, Effects: E(func(b *effBuilder, a, t uint64) []sx.Val {
			return []sx.Val{b.rstore(b.cst(t, 8), ipName, 8)}
		})},
	}
}

// nonTermTemplates is the number of templates that may stand anywhere in a
// block (the terminators follow them in the alphabet).
var nonTermTemplates = func() int {
	n := 0
	for _, t := range insAlphabet() {
		if !t.Term {
			n++
		}
	}
	return n
}()

// tix returns the index of a template by name.
func tix(name string) int {
	for i, t := range insAlphabet() {
		if t.Name == name {
			return i
		}
	}
	panic("no instruction template " + name)
}

func tixs(names ...string) []int {
	var out []int
	for _, n := range names {
		out = append(out, tix(n))
	}
	return out
}

// blockSeq is a block: template indices in address order.
type blockSeq []int

func (s blockSeq) String() string {
	al := insAlphabet()
	var ps []string
	for _, t := range s {
		ps = append(ps, al[t].Name)
	}
	return "{" + strings.Join(ps, "; ") + "}"
}

// blockCorpus: every block of 1..full instructions (the last one optionally a
// terminator), plus seeded random longer blocks.
func blockCorpus(tier string, seed int64) []blockSeq {
	al := insAlphabet()
	full, nrand, maxLen := 2, 250, 4
	if tier == "thorough" {
		full, nrand, maxLen = 3, 4000, 5
	}
	var out []blockSeq
	var rec func(cur blockSeq, n int)
	rec = func(cur blockSeq, n int) {
		if len(cur) == n {
			out = append(out, append(blockSeq{}, cur...))
			return
		}
		last := len(cur) == n-1
		for t := range al {
			if al[t].Term && !last {
				continue
			}
			rec(append(cur, t), n)
		}
	}
	for n := 1; n <= full; n++ {
		rec(nil, n)
	}
	// focused families: every block of 3 (and 4) instructions over small
	// sub-alphabets that concentrate on one register / one memory space,
	// where chains of writers and readers occur
	sub := func(ts []int, n int) {
		var rec2 func(cur blockSeq)
		rec2 = func(cur blockSeq) {
			if len(cur) == n {
				out = append(out, append(blockSeq{}, cur...))
				return
			}
			for _, t := range ts {
				rec2(append(cur, t))
			}
		}
		rec2(nil)
	}
	regFam := tixs("li x1,5", "ld x1,0(x2)", "mv x2,x1", "li x2,7", "sd x2,0(x1)")
	memFam := tixs("sd x2,0(x1)", "sd x1,8(x2)", "ld x1,0(x2)", "lw x2,0(x1)", "fence", "sw x1,m2")
	ipFam := tixs("jal x1,+4", "jal x2,+4", "auipc x2", "addi x1,x1,1", "ecall", "nop")
	sub(tixs("amoadd.d x1,x1,(x1)", "li x2,7", "nop", "fence", "ld x1,0(x2)"), 3)
	sub(regFam, 3)
	sub(memFam, 3)
	sub(ipFam, 3)
	sub(regFam, 4)
	if tier == "thorough" {
		sub(memFam, 4)
		sub(ipFam, 4)
		sub(tixs("li x1,5", "ld x1,0(x2)", "mv x2,x1", "jal x1,+4", "addi x1,x1,1", "add x1,x1,x2"), 4)
	}
	rng := rand.New(rand.NewSource(seed*131 + 9))
	for i := 0; i < nrand; i++ {
		n := full + 1 + rng.Intn(maxLen-full)
		var s blockSeq
		for k := 0; k < n; k++ {
			if k == n-1 && rng.Intn(2) == 0 {
				s = append(s, nonTermTemplates+rng.Intn(len(al)-nonTermTemplates))
			} else {
				s = append(s, rng.Intn(nonTermTemplates))
			}
		}
		out = append(out, s)
	}
	return out
}

// ---------- building the world ----------

type depsWorld struct {
	c      *Ctx
	p      *sx.Path
	al     []insTemplate
	seq    blockSeq
	base   uint64
	code   sx.Ptr
	block  sx.Ptr
	insPtr []sx.Ptr // instruction objects by original position
	byObj  map[int]int
}

func fieldIdx(t types.Type, name string) int {
	if pt, ok := t.Underlying().(*types.Pointer); ok {
		t = pt.Elem()
	}
	st := t.Underlying().(*types.Struct)
	for i := 0; i < st.NumFields(); i++ {
		if st.Field(i).Name() == name {
			return i
		}
	}
	panic(fmt.Sprintf("type %s has no field %s (renamed?)", t, name))
}

func (c *Ctx) pkgType(pkg, name string) types.Type {
	pk := c.P.SSA[pkg]
	if pk == nil {
		panic("package " + pkg + " not loaded")
	}
	m := pk.Type(name)
	if m == nil {
		panic("type " + pkg + "." + name + " not found (renamed?)")
	}
	return m.Type()
}

// mkParserInstr builds a parser.Instruction value.
func (c *Ctx) mkParserInstr(p *sx.Path, t insTemplate, addr, target uint64, length int) sx.Val {
	pit := c.pkgType("mltwist/internal/parser", "Instruction")
	effT := c.pkgType("mltwist/pkg/expr", "Effect")
	detT := c.pkgType("mltwist/internal/riscv", "instruction")
	b := &effBuilder{c: c, p: p}
	efs := t.Effects(b, addr, target)
	bs := make([]sx.Val, length)
	for i := range bs {
		bs[i] = smt.BVU(uint64(0x10+i), 8)
	}
	st := sx.Zero(pit).(*sx.Struct)
	st.F[fieldIdx(pit, "Type")] = smt.BVU(t.Type, 64)
	st.F[fieldIdx(pit, "Addr")] = smt.BVU(addr, 64)
	st.F[fieldIdx(pit, "Bytes")] = p.NewSlice(types.Typ[types.Uint8], bs)
	if len(efs) > 0 {
		st.F[fieldIdx(pit, "Effects")] = p.NewSlice(effT, efs)
	}
	st.F[fieldIdx(pit, "Details")] = sx.Iface{T: detT, V: sx.Zero(detT)}
	return st
}

func (t insTemplate) length() int {
	if t.Len == 0 {
		return 4
	}
	return t.Len
}

func (c *Ctx) mkInstrSeq(p *sx.Path, seq blockSeq, base uint64) sx.Val {
	al := insAlphabet()
	pit := c.pkgType("mltwist/internal/parser", "Instruction")
	var els []sx.Val
	a := base
	for _, t := range seq {
		els = append(els, c.mkParserInstr(p, al[t], a, base, al[t].length()))
		a += uint64(al[t].length())
	}
	return p.NewSlice(pit, els)
}

// world reads the Code built by the real NewCode (expects one block).
func (c *Ctx) depsWorldOf(p *sx.Path, seq blockSeq, base uint64, code sx.Val) (*depsWorld, string) {
	w := &depsWorld{c: c, p: p, al: insAlphabet(), seq: seq, base: base, byObj: map[int]int{}}
	cp, ok := code.(sx.Ptr)
	if !ok || cp.Obj == 0 {
		return nil, "NewCode returned nil"
	}
	w.code = cp
	ct := c.pkgType("mltwist/internal/deps", "Code")
	cs := p.Load(cp, "code").(*sx.Struct)
	blocks := cs.F[fieldIdx(ct, "blocks")].(sx.Slice)
	if n, _ := blocks.Len.Uint64(); n != 1 {
		return nil, fmt.Sprintf("the sequence was split into %d blocks, 1 expected", n)
	}
	w.block = p.SliceElems(blocks)[0].(sx.Ptr)
	for _, ip := range w.order() {
		w.insPtr = append(w.insPtr, ip)
	}
	for i, ip := range w.insPtr {
		w.byObj[ip.Obj] = i
	}
	return w, ""
}

func (w *depsWorld) blockStruct() *sx.Struct { return w.p.Load(w.block, "block").(*sx.Struct) }

// order returns the instruction pointers in current block order.
func (w *depsWorld) order() []sx.Ptr {
	bt := w.c.pkgType("mltwist/internal/deps", "block")
	sl := w.blockStruct().F[fieldIdx(bt, "seq")].(sx.Slice)
	var out []sx.Ptr
	for _, e := range w.p.SliceElems(sl) {
		out = append(out, e.(sx.Ptr))
	}
	return out
}

func (w *depsWorld) insField(ip sx.Ptr, name string) sx.Val {
	it := w.c.pkgType("mltwist/internal/deps", "instruction")
	return w.p.Load(ip, "instruction").(*sx.Struct).F[fieldIdx(it, name)]
}

func (w *depsWorld) perm() []int {
	var out []int
	for _, ip := range w.order() {
		out = append(out, w.byObj[ip.Obj])
	}
	return out
}

func permKey(p []int) string { return fmt.Sprint(p) }

// edges returns the dependency edges (by original index) read from depsFwd.
func (w *depsWorld) edges() map[[2]int]bool {
	out := map[[2]int]bool{}
	for i, ip := range w.insPtr {
		mr, ok := w.insField(ip, "depsFwd").(sx.MapRef)
		if !ok || mr.Obj == 0 {
			continue
		}
		mv := w.p.Heap[mr.Obj].(*sx.MapVal)
		for _, k := range mv.Keys {
			out[[2]int{i, w.byObj[k.(sx.Ptr).Obj]}] = true
		}
	}
	return out
}

func (w *depsWorld) call(name string, args ...sx.Val) sx.Val {
	return w.p.Call(w.c.Func(name), args, nil, nil)
}

func (w *depsWorld) snapshot() map[int]sx.Val {
	h := make(map[int]sx.Val, len(w.p.Heap))
	for k, v := range w.p.Heap {
		h[k] = v
	}
	return h
}

func (w *depsWorld) restore(h map[int]sx.Val) {
	nh := make(map[int]sx.Val, len(h))
	for k, v := range h {
		nh[k] = v
	}
	w.p.Heap = nh
}

func heapsEqual(a, b map[int]sx.Val) bool {
	for k, v := range a {
		if nv, ok := b[k]; !ok || !sx.SameVal(nv, v) {
			return false
		}
	}
	return true
}

// ---------- block behaviour (the semantics a reordering must preserve) ----------

type machState struct {
	regs map[string]*smt.Term
	mems map[string]*smt.Term
	ip   *smt.Term // final instruction pointer
	note string
}

func newMachState() *machState {
	s := &machState{regs: map[string]*smt.Term{}, mems: map[string]*smt.Term{}}
	for _, r := range []string{"x1", "x2", "csr1"} {
		s.regs[r] = smt.Var("r0."+r, smt.BV(64))
	}
	for _, m := range []string{"m", "m2"} {
		s.mems[m] = smt.Var("mem0."+m, smt.Array(smt.BV(64), smt.BV(8)))
	}
	return s
}

func (s *machState) env() *ir.Env {
	return &ir.Env{
		BigLimit: 0,
		Reg: func(key sx.Str, w int) *smt.Term {
			t, ok := s.regs[key.S]
			if !ok {
				t = smt.Var("r0."+key.S, smt.BV(64))
				s.regs[key.S] = t
			}
			return smt.Resize(t, 8*w)
		},
		Mem: func(key sx.Str, addr *smt.Term, w int) *smt.Term {
			m, ok := s.mems[key.S]
			if !ok {
				m = smt.Var("mem0."+key.S, smt.Array(smt.BV(64), smt.BV(8)))
				s.mems[key.S] = m
			}
			var r *smt.Term
			for i := 0; i < w; i++ {
				b := smt.Select(m, smt.BVAdd(addr, smt.BVU(uint64(i), 64)))
				if r == nil {
					r = b
				} else {
					r = smt.Concat(b, r)
				}
			}
			return r
		},
	}
}

// runBlock executes the instructions the way the emulator steps through them:
// the instruction at the current address is looked up in the current layout,
// all its effects are evaluated in the pre-state and applied in order; a write
// of the instruction pointer is a jump, otherwise execution falls through.
// Execution ends at the first control transfer (a write of the instruction
// pointer to anything but the address of the instruction that follows in the
// current layout) or when the pointer runs off the end of the block.
func (w *depsWorld) runBlock() *machState {
	s := newMachState()
	type li struct {
		addr uint64
		efs  sx.Val
		len  uint64
	}
	var layout []li
	for _, ip := range w.order() {
		a, _ := w.insField(ip, "currAddr").(*smt.Term).Uint64()
		n, _ := w.insField(ip, "bytes").(sx.Slice).Len.Uint64()
		layout = append(layout, li{a, w.insField(ip, "effects"), n})
	}
	ip := w.base
	for steps := 0; ; steps++ {
		if steps > 3*len(layout)+3 {
			s.note = "does not leave the block"
			s.ip = smt.BVU(ip, 64)
			return s
		}
		var cur *li
		for k := range layout {
			if layout[k].addr == ip {
				cur = &layout[k]
			}
		}
		if cur == nil {
			s.ip = smt.BVU(ip, 64)
			return s
		}
		d := &ir.Den{T: w.c.IR, P: w.p, Env: s.env()}
		var newIP *smt.Term
		efs := d.Effects(cur.efs)
		// evaluated in the pre-state, applied in order
		for _, ef := range efs {
			if !ef.IsMem {
				if ef.Key.S == ipName {
					newIP = smt.Resize(ef.Val, 64)
				} else {
					s.regs[ef.Key.S] = smt.Resize(ef.Val, 64)
				}
				continue
			}
			m, ok := s.mems[ef.Key.S]
			if !ok {
				m = smt.Var("mem0."+ef.Key.S, smt.Array(smt.BV(64), smt.BV(8)))
			}
			for i := 0; i < ef.W; i++ {
				m = smt.Store(m, smt.BVAdd(ef.Addr, smt.BVU(uint64(i), 64)), smt.Extract(ef.Val, 8*i+7, 8*i))
			}
			s.mems[ef.Key.S] = m
		}
		if newIP == nil {
			ip += cur.len
			continue
		}
		if k, ok := newIP.Uint64(); ok && k == cur.addr+cur.len {
			// a jump to the instruction that follows anyway
			ip = k
			continue
		}
		// a control transfer ends the run of the block
		s.ip = newIP
		return s
	}
}

// sameBehaviour is the condition "both final states are equal".
func sameBehaviour(p *sx.Path, a, b *machState) *smt.Term {
	c := smt.Eq(a.ip, b.ip)
	keys := map[string]bool{}
	for k := range a.regs {
		keys[k] = true
	}
	for k := range b.regs {
		keys[k] = true
	}
	var ks []string
	for k := range keys {
		ks = append(ks, k)
	}
	sort.Strings(ks)
	get := func(m map[string]*smt.Term, k string, pre string, s *smt.Sort) *smt.Term {
		if t, ok := m[k]; ok {
			return t
		}
		return smt.Var(pre+k, s)
	}
	for _, k := range ks {
		c = smt.And(c, smt.Eq(get(a.regs, k, "r0.", smt.BV(64)), get(b.regs, k, "r0.", smt.BV(64))))
	}
	mk := map[string]bool{}
	for k := range a.mems {
		mk[k] = true
	}
	for k := range b.mems {
		mk[k] = true
	}
	ks = nil
	for k := range mk {
		ks = append(ks, k)
	}
	sort.Strings(ks)
	at := smt.Var("cmp.addr", smt.BV(64)) // arbitrary address: extensional equality
	as := smt.Array(smt.BV(64), smt.BV(8))
	for _, k := range ks {
		c = smt.And(c, smt.Eq(smt.Select(get(a.mems, k, "mem0.", as), at), smt.Select(get(b.mems, k, "mem0.", as), at)))
	}
	if a.note != b.note {
		return smt.False
	}
	return c
}

// ---------- the specification of "independent" (C06) ----------

func inter(a, b []string) bool {
	for _, x := range a {
		for _, y := range b {
			if x == y {
				return true
			}
		}
	}
	return false
}

// independent: the property's conditions for two adjacent instructions a
// (first) and b (second); bIsLast: b is the last instruction of the block.
func independent(a, b insTemplate, bIsLast bool) bool {
	ra := append(append([]string{}, a.In...), a.Out...)
	rb := append(append([]string{}, b.In...), b.Out...)
	if inter(ra, rb) {
		return false
	}
	if inter(a.Stores, b.Stores) || inter(a.Stores, b.Loads) || inter(a.Loads, b.Stores) {
		return false
	}
	special := func(t insTemplate) bool { return t.Type&(2|4) != 0 }
	if special(a) || special(b) {
		return false
	}
	memOrder := func(t insTemplate) bool { return t.Type&1 != 0 }
	memAcc := func(t insTemplate) bool { return len(t.Loads)+len(t.Stores) > 0 }
	if (memOrder(a) && (memAcc(b) || memOrder(b))) || (memOrder(b) && (memAcc(a) || memOrder(a))) {
		return false
	}
	if bIsLast && b.Term {
		return false
	}
	return true
}
