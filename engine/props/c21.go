package props

import (
	"fmt"
	"go/ast"
	"go/types"
	"strings"

	"gocv/smt"
	"gocv/spec"
	"gocv/sx"
	"gocv/vc"

	"golang.org/x/tools/go/ssa"
)

// C21: code parsing. parser.Parse is verified modularly against the contract
// of the parser.Parser interface: the front end is replaced by an abstract
// parser that behaves in every way the interface contract allows (for each
// instruction position: an error, or an instruction of 2 or 4 bytes that fits
// the remaining bytes, with arbitrary type and with effects built from the
// bytes at that position). That riscv.Parser.Parse satisfies the interface
// contract (error or ByteLen == 4 <= len(b), a valid model) is a separate
// family of obligations on the real RISC-V front end.

type stubRec struct {
	Err     bool
	Len     int
	Typ     *smt.Term
	Effects sx.Val
	Details sx.Val
	Addr    *smt.Term
}

func imageCorpus(tier string) [][]int {
	c := [][]int{{}, {1}, {2}, {3}, {4}, {5}, {6}, {8}, {4, 4}, {5, 2}, {2, 3}}
	if tier == "thorough" {
		c = append(c, []int{7}, []int{10}, []int{12}, []int{4, 4, 4}, []int{6, 6}, []int{1, 4})
	}
	return c
}

func (c *Ctx) installParseBuiltins(ev *spec.Eval, us *UnitSpec, images [][]int) {
	B := ev.Builtins
	p := ev.P
	memT := c.pkgType("mltwist/internal/elf", "Memory")
	blkT := c.pkgType("mltwist/internal/elf", "Block")
	parserT := c.pkgType("mltwist/internal/riscv", "Parser")
	insT := c.pkgType("mltwist/pkg/model", "Instruction")
	detT := c.pkgType("mltwist/internal/riscv", "instruction")
	effT := c.pkgType("mltwist/pkg/expr", "Effect")
	memo := map[string]*stubRec{}
	var blocks []struct {
		obj   int
		begin uint64
		n     int
	}
	B["code_image"] = func(ev *spec.Eval, a []ast.Expr) spec.TV {
		img := images[constArg(ev, a[0], "image index")]
		var els []sx.Val
		for k, n := range img {
			bs := make([]sx.Val, n)
			for i := range bs {
				bs[i] = smt.Var(fmt.Sprintf("img%d.b%d", k, i), smt.BV(8))
			}
			sl := p.NewSlice(types.Typ[types.Uint8], bs)
			begin := uint64(0x1000 * (k + 1))
			st := sx.Zero(blkT).(*sx.Struct)
			st.F[fieldIdx(blkT, "begin")] = smt.BVU(begin, 64)
			st.F[fieldIdx(blkT, "bytes")] = sl
			els = append(els, st)
			blocks = append(blocks, struct {
				obj   int
				begin uint64
				n     int
			}{sl.Obj, begin, n})
		}
		ms := sx.Zero(memT).(*sx.Struct)
		if len(els) > 0 {
			ms.F[fieldIdx(memT, "Blocks")] = p.NewSlice(blkT, els)
		}
		return spec.TV{V: sx.Ptr{Obj: p.Alloc(ms)}, T: types.NewPointer(memT)}
	}
	// abstract_parser(): a parser.Parser about which only the interface
	// contract is known
	B["abstract_parser"] = func(ev *spec.Eval, a []ast.Expr) spec.TV {
		return spec.TV{V: sx.Iface{T: parserT, V: sx.Zero(parserT)}}
	}
	b := &effBuilder{c: c, p: p}
	p.Ghost["callhook"] = func(p *sx.Path, fn *ssa.Function, args []sx.Val, site ssa.Instruction) (sx.Val, bool) {
		if r, ok := c.valueHook(p, fn, args, site); ok {
			return r, true
		}
		if sx.FuncName(fn) != "(riscv.Parser).Parse" {
			return nil, false
		}
		addr := args[1].(*smt.Term)
		bs := args[2].(sx.Slice)
		off, ok1 := bs.Off.Uint64()
		n, ok2 := bs.Len.Uint64()
		if !ok1 || !ok2 {
			panic(sx.Unsupported{Msg: "abstract parser called with a slice of symbolic bounds"})
		}
		key := fmt.Sprintf("%d@%d", bs.Obj, off)
		rec, seen := memo[key]
		if !seen {
			rec = &stubRec{Addr: addr}
			fresh := func(name string) *smt.Term { return smt.Var("stub."+name+"."+key, smt.Bool) }
			switch {
			case n < 2:
				rec.Err = true // truncated: no instruction fits
			case p.Decide(fresh("err")):
				rec.Err = true
			default:
				rec.Len = 2
				if n >= 4 && p.Decide(fresh("len4")) {
					rec.Len = 4
				}
				rec.Typ = smt.Var("stub.type."+key, smt.BV(64))
				p.Assume(smt.BVUlt(rec.Typ, smt.BVU(8, 64))) // a valid model.Type
				el := p.SliceElems(sx.Slice{Obj: bs.Obj, Off: bs.Off, Len: smt.BVU(uint64(rec.Len), 64), Cap: bs.Cap})
				c0 := c.IR.MkConst(p, []*smt.Term{el[0].(*smt.Term)})
				c1 := c.IR.MkConst(p, []*smt.Term{el[1].(*smt.Term)})
				efs := []sx.Val{b.rstore(b.bin(1, c0, c1, 1), "x1", 1)}
				if rec.Len == 4 {
					c2 := c.IR.MkConst(p, []*smt.Term{el[2].(*smt.Term), el[3].(*smt.Term)})
					efs = append(efs, b.mstore(b.reg("x1", 2), "m", b.bin(6, c2, c2, 2), 2))
				}
				rec.Effects = p.NewSlice(effT, efs)
				rec.Details = sx.Iface{T: detT, V: sx.Zero(detT)}
			}
			memo[key] = rec
		}
		if rec.Err {
			return sx.Tuple{sx.Zero(insT), p.NewError(sx.Str{S: "undecodable"}, sx.Iface{})}, true
		}
		st := sx.Zero(insT).(*sx.Struct)
		st.F[fieldIdx(insT, "Type")] = rec.Typ
		st.F[fieldIdx(insT, "ByteLen")] = smt.BVU(uint64(rec.Len), 64)
		st.F[fieldIdx(insT, "Effects")] = rec.Effects
		st.F[fieldIdx(insT, "Details")] = rec.Details
		return sx.Tuple{st, sx.Iface{}}, true
	}
	// walk the image as the property prescribes
	type want struct {
		blk, pos int
		rec      *stubRec
	}
	walk := func() ([]want, bool, string) {
		var ws []want
		for k, bl := range blocks {
			pos := 0
			for pos < bl.n {
				rec, ok := memo[fmt.Sprintf("%d@%d", bl.obj, pos)]
				if !ok {
					return ws, false, fmt.Sprintf("the position %d of block %d was never handed to the parser", pos, k)
				}
				if rec.Err {
					return ws, true, ""
				}
				ws = append(ws, want{k, pos, rec})
				pos += rec.Len
			}
		}
		return ws, false, ""
	}
	B["image_undecodable"] = func(ev *spec.Eval, a []ast.Expr) spec.TV {
		_, bad, msg := walk()
		if msg != "" {
			p.Ghost["detail"] = msg
		}
		return spec.TV{V: smt.BoolC(bad)}
	}
	B["tiles_image"] = func(ev *spec.Eval, a []ast.Expr) spec.TV {
		res := ev.Eval(a[0]).V.(sx.Slice)
		ws, bad, msg := walk()
		if bad {
			return spec.TV{V: smt.True}
		}
		fail := func(format string, args ...interface{}) spec.TV {
			p.Ghost["detail"] = fmt.Sprintf(format, args...)
			return spec.TV{V: smt.False}
		}
		if msg != "" {
			return fail("%s", msg)
		}
		var got []sx.Val
		if n, _ := res.Len.Uint64(); n > 0 {
			got = p.SliceElems(res)
		}
		if len(got) != len(ws) {
			return fail("%d instructions returned, the image holds %d", len(got), len(ws))
		}
		pit := c.pkgType("mltwist/internal/parser", "Instruction")
		cond := smt.True
		d := c.den(p)
		for i, w := range ws {
			st := got[i].(*sx.Struct)
			bl := blocks[w.blk]
			cond = smt.And(cond, smt.Eq(st.F[fieldIdx(pit, "Addr")].(*smt.Term), smt.BVU(bl.begin+uint64(w.pos), 64)))
			bsl := st.F[fieldIdx(pit, "Bytes")].(sx.Slice)
			off, _ := bsl.Off.Uint64()
			ln, _ := bsl.Len.Uint64()
			if bsl.Obj != bl.obj || int(off) != w.pos || int(ln) != w.rec.Len {
				return fail("instruction %d does not carry the %d bytes at offset %d of block %d", i, w.rec.Len, w.pos, w.blk)
			}
			cond = smt.And(cond, smt.Eq(st.F[fieldIdx(pit, "Type")].(*smt.Term), w.rec.Typ))
			if !sx.SameVal(st.F[fieldIdx(pit, "Details")], w.rec.Details) {
				return fail("instruction %d lost its platform details", i)
			}
			ge := p.SliceElems(st.F[fieldIdx(pit, "Effects")].(sx.Slice))
			we := p.SliceElems(w.rec.Effects.(sx.Slice))
			if len(ge) != len(we) {
				return fail("instruction %d has %d effects, the front end lifted %d", i, len(ge), len(we))
			}
			for k := range ge {
				g, x := ge[k].(sx.Iface), we[k].(sx.Iface)
				if !types.Identical(g.T, x.T) {
					return fail("instruction %d: effect %d changed its kind", i, k)
				}
				gs, xs := g.V.(*sx.Struct), x.V.(*sx.Struct)
				for f := range xs.F {
					switch xv := xs.F[f].(type) {
					case sx.Iface: // operand: same width and value under every valuation
						if d.Width(gs.F[f]) != d.Width(xv) {
							return fail("instruction %d: an operand of effect %d changed its width", i, k)
						}
						cond = smt.And(cond, smt.Eq(d.Expr(gs.F[f]), d.Expr(xv)))
					case sx.Str:
						cond = smt.And(cond, p.StrEq(gs.F[f].(sx.Str), xv))
					case *smt.Term:
						cond = smt.And(cond, smt.Eq(gs.F[f].(*smt.Term), xv))
					}
				}
			}
		}
		return spec.TV{V: cond}
	}
	_ = strings.TrimSpace
}

func init() {
	register(&Prop{
		ID:        "C21",
		Level:     "other",
		Technique: "contract-based deductive verification: parser.Parse against the contract of the parser.Parser interface (the front end replaced by an abstract parser allowed every behaviour the contract permits), and the real riscv.Parser.Parse against that interface contract; currently bounded in the size of the code image",
		MinObls:   60,
		Claim:     "parser.Parse is checked for every code image of the corpus (0-3 blocks of 1-12 arbitrary bytes) against an abstract front end that, at every instruction position, either fails or returns a 2- or 4-byte instruction fitting the remaining bytes: Parse fails exactly when a position reached by tiling the blocks from their begin is undecodable or truncated, and otherwise returns, block by block in address order, instructions that carry the address, the bytes at that address, the type, the details and effects of the same kinds, keys and widths whose operands have the same width and value as the lifted ones. The real RISC-V front end is shown to satisfy the interface contract (error, or ByteLen == 4 <= len(b) and a model that validates).",
		Note:      "bounded stand-in for the image size: block lengths of the corpus; the front end's decisions (error / 2 bytes / 4 bytes) are explored exhaustively per position. The interface contract of parser.Parser used here: Parse(addr, b) returns an error, or an instruction with 1 <= ByteLen <= len(b), Type < TypeMax, non-nil effects and details; at least two bytes are needed for an instruction.",
		Assumptions: []string{
			"bounded: code images of the corpus (block lengths up to 8, thorough 12)",
			"the abstract parser stands for any implementation of parser.Parser that meets the interface contract; riscv.Parser is checked against that contract for both variants, every extension subset and input lengths 0-6 (the Match call inside replaced by its contract, property C19)",
			"calls of expreval.* are replaced by their contracts (property C10); ConstFold and EffectsApply are executed as they are (properties C09, C28)",
		},
		Build: func(c *Ctx) []*vc.Unit {
			images := imageCorpus(c.Tier)
			var idx []int64
			for i := range images {
				idx = append(idx, int64(i))
			}
			c.Sets["IMAGES"] = idx
			units := c.ContractUnits("parser.Parse", func(us *UnitSpec) {
				us.Bounded = "code images of the corpus"
				us.InstanceName = fmt.Sprintf("image=%v", images[us.Enum["k"]])
				us.MaxPaths = 200000
				us.CallHook = func(p *sx.Path, fn *ssa.Function, args []sx.Val, site ssa.Instruction) (sx.Val, bool) {
					if h, ok := p.Ghost["callhook"].(func(p *sx.Path, fn *ssa.Function, args []sx.Val, site ssa.Instruction) (sx.Val, bool)); ok {
						return h(p, fn, args, site)
					}
					return c.valueHook(p, fn, args, site)
				}
				us.Inputs = func(p *sx.Path, ev *spec.Eval, fn *ssa.Function) map[string]sx.Val {
					env := c.leafEnv(p)
					env.BigLimit = 0
					p.Ghost["env"] = env
					return nil
				}
				inner := us.Inputs
				us.Inputs = func(p *sx.Path, ev *spec.Eval, fn *ssa.Function) map[string]sx.Val {
					c.installParseBuiltins(ev, us, images)
					return inner(p, ev, fn)
				}
			})
			// the real front end meets the interface contract
			c02 := Registry["C02"].Build(c)
			for _, u := range c02 {
				u.OnlyObl = func(name string) bool {
					return strings.Contains(name, "/ensures/length") || strings.Contains(name, "/ensures/model-valid") || strings.Contains(name, "/ensures/short")
				}
			}
			return append(units, c02...)
		},
	})
}
