package props

import (
	"fmt"

	"gocv/spec"
	"gocv/sx"
	"gocv/vc"

	"golang.org/x/tools/go/ssa"
)

// treeUnits builds one bounded unit per tree of the corpus for a contract
// whose input is tree(k).
func (c *Ctx) treeUnits(name string, trees []*tdesc, mk func(us *UnitSpec)) []*vc.Unit {
	var idx []int64
	for i := range trees {
		idx = append(idx, int64(i))
	}
	c.Sets["TREES"] = idx
	bound := fmt.Sprintf("expression trees of the corpus (%d trees of depth <= 4: systematic families plus seeded random trees), all constant bytes, registers and memory symbolic", len(trees))
	return c.ContractUnits(name, func(us *UnitSpec) {
		k := us.Enum["k"]
		if d, ok := us.Enum["d"]; ok && int(k+d) >= len(trees) {
			us.Skip = true
			return
		}
		us.Bounded = bound
		us.InstanceName = fmt.Sprintf("k=%d %s", k, trees[k])
		if w, ok := us.Enum["w"]; ok {
			us.InstanceName += fmt.Sprintf(" w=%d", w)
		}
		if d, ok := us.Enum["d"]; ok {
			us.InstanceName += fmt.Sprintf(" vs k+%d", d)
		}
		us.CallHook = c.valueHook
		us.Inputs = func(p *sx.Path, ev *spec.Eval, fn *ssa.Function) map[string]sx.Val {
			c.installTreeBuiltins(ev, trees)
			// constant folding really multiplies and divides: the IR
			// operators are interpreted here, not abstracted
			env := c.leafEnv(p)
			env.BigLimit = 0
			p.Ghost["env"] = env
			return nil
		}
		if mk != nil {
			mk(us)
		}
	})
}

func treeProp(id, fn, claim string, minObls int, extra func(c *Ctx, trees []*tdesc) []*vc.Unit) *Prop {
	return &Prop{
		ID:        id,
		Level:     "other",
		Technique: "contract-based deductive verification of the real tree transformers; currently bounded: symbolic execution on a corpus of concrete tree shapes with all constants, registers and memory symbolic",
		MinObls:   minObls,
		Claim:     claim,
		Note:      "bounded stand-in: the contract is checked for every tree shape of a corpus (systematic families covering every node kind, operator and width relation, width-adapter chains, loads with adapted/computed/constant addresses, conditionals with constant and symbolic conditions, plus seeded random trees; thorough adds 1500 random trees). Within a shape the proof is complete: all constant bytes, register and memory contents are symbolic and the value equations are bit-vector validities. The structural induction over all trees (DESIGN K2) is not mechanised yet.",
		Assumptions: []string{
			"bounded: the tree shapes of the corpus (widths 1, 2, 4, 8; depth <= 4)",
			"IR semantics as documented in pkg/expr (DESIGN §4.1)",
			"calls of expreval.Add/Lsh/Rsh/Mul/Div/Nand/Ltu are replaced by their contracts (internal/exprtransform/internal/expreval/contracts_verif.go, proved per width under property C10)",
		},
		Build: func(c *Ctx) []*vc.Unit {
			trees := treeCorpus(c.Tier, c.Seed)
			var units []*vc.Unit
			if fn != "" {
				units = c.treeUnits(fn, trees, nil)
			}
			if extra != nil {
				units = append(units, extra(c, trees)...)
			}
			return units
		},
	}
}

func init() {
	register(treeProp("C09", "exprtransform.ConstFold",
		"ConstFold's contract (same width, same value under every valuation, constant trees fold to one constant, no all-constant operation remains, idempotent) is checked on the real code for every tree shape of the corpus with symbolic leaves: a bounded check over shapes, complete over values.", 300, nil))
	register(treeProp("C12", "",
		"SetWidth (value zero-extended/truncated to the new width) and PurgeWidthGadgets (same width and value, hence also the same load addresses) are checked on the real code for every tree shape of the corpus and every target width of a small set, with symbolic leaves: bounded over shapes, complete over values.", 300,
		func(c *Ctx, trees []*tdesc) []*vc.Unit {
			c.Sets["SETWIDTHS"] = []int64{1, 2, 3, 4, 8}
			u := c.treeUnits("exprtransform.SetWidth", trees, nil)
			return append(u, c.treeUnits("exprtransform.PurgeWidthGadgets", trees, nil)...)
		}))
	register(treeProp("C13", "exprtransform.Possibilities",
		"Possibilities' contract (every alternative has the expression's width and no conditional; for every valuation some alternative has the expression's value) is checked on the real code for every tree shape of the corpus with symbolic leaves: bounded over shapes, complete over values.", 200, nil))
}
