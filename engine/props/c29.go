package props

import (
	"fmt"
	"go/ast"
	"go/types"

	"gocv/smt"
	"gocv/spec"
	"gocv/sx"
	"gocv/vc"

	"golang.org/x/tools/go/ssa"
)

// C29: help-text wrapping. The text is a string of concrete length whose
// bytes are symbolic.

func (c *Ctx) installStrBuiltins(ev *spec.Eval) {
	B := ev.Builtins
	// symstr(n [, name]): a string of n arbitrary bytes
	B["symstr"] = func(ev *spec.Eval, a []ast.Expr) spec.TV {
		n := constArg(ev, a[0], "string length")
		name := "s"
		if len(a) > 1 {
			name = strArg(ev, a[1])
		}
		bs := make([]*smt.Term, n)
		for i := range bs {
			bs[i] = smt.Var(fmt.Sprintf("%s.%d", name, i), smt.BV(8))
		}
		if n == 0 {
			return spec.TV{V: sx.Str{}, T: types.Typ[types.String]}
		}
		return spec.TV{V: sx.Str{Bs: bs}, T: types.Typ[types.String]}
	}
	bytesOf := func(v spec.TV) []*smt.Term {
		s, ok := v.V.(sx.Str)
		if !ok {
			panic(spec.EvalError{Msg: "string expected"})
		}
		bs, ok := s.ByteTerms()
		if !ok {
			panic(spec.EvalError{Msg: "string of concrete length expected"})
		}
		return bs
	}
	B["no_byte"] = func(ev *spec.Eval, a []ast.Expr) spec.TV {
		ch := constArg(ev, a[1], "byte")
		c := smt.True
		for _, b := range bytesOf(ev.Eval(a[0])) {
			c = smt.And(c, smt.Not(smt.Eq(b, smt.BVU(uint64(ch), 8))))
		}
		return spec.TV{V: c}
	}
	B["no_leading_space"] = func(ev *spec.Eval, a []ast.Expr) spec.TV {
		bs := bytesOf(ev.Eval(a[0]))
		if len(bs) == 0 {
			return spec.TV{V: smt.True}
		}
		return spec.TV{V: smt.Not(smt.Eq(bs[0], smt.BVU(' ', 8)))}
	}
	// wrapped(out, s, indent, chars) splits out into lines and relates them to s;
	// it returns the conjunction of the named facts selected by the first
	// argument: "lines" (every line is newline-terminated, starts with indent
	// tabs and has 1..chars further bytes), "content" (the line texts are
	// consecutive pieces of s, everything skipped between and after them
	// is a space), "words" (a line ends inside a word only if the line
	// contains no space and is full)
	B["wrapped"] = func(ev *spec.Eval, a []ast.Expr) spec.TV {
		what := strArg(ev, a[0])
		out := bytesOf(ev.Eval(a[1]))
		s := bytesOf(ev.Eval(a[2]))
		indent := int(constArg(ev, a[3], "indent"))
		chars := int(constArg(ev, a[4], "chars"))
		isConst := func(t *smt.Term, ch byte) bool { k, ok := t.Uint64(); return ok && k == uint64(ch) }
		sp := smt.BVU(' ', 8)
		// split at the newline constants (the text itself has none)
		var lines [][]*smt.Term
		var cur []*smt.Term
		for _, b := range out {
			if isConst(b, '\n') {
				lines = append(lines, cur)
				cur = nil
				continue
			}
			cur = append(cur, b)
		}
		if len(cur) > 0 {
			return spec.TV{V: smt.False} // last line not terminated
		}
		pos := 0
		cond := smt.True
		index := map[*smt.Term]int{}
		for i, b := range s {
			index[b] = i
		}
		for _, ln := range lines {
			if len(ln) < indent {
				return spec.TV{V: smt.False}
			}
			for j := 0; j < indent; j++ {
				if !isConst(ln[j], '\t') {
					return spec.TV{V: smt.False}
				}
			}
			text := ln[indent:]
			if what == "lines" {
				if len(text) < 1 || len(text) > chars {
					return spec.TV{V: smt.False}
				}
				continue
			}
			if len(text) == 0 {
				continue
			}
			idx, ok := index[text[0]]
			if !ok || idx < pos || idx+len(text) > len(s) {
				return spec.TV{V: smt.False}
			}
			for j := range text {
				if text[j] != s[idx+j] {
					return spec.TV{V: smt.False}
				}
			}
			if what == "content" {
				for k := pos; k < idx; k++ {
					cond = smt.And(cond, smt.Eq(s[k], sp))
				}
			}
			pos = idx + len(text)
		}
		if what == "content" {
			for k := pos; k < len(s); k++ {
				cond = smt.And(cond, smt.Eq(s[k], sp))
			}
		}
		if what == "words" {
			// second pass with line extents
			pos = 0
			type ext struct{ a, b int }
			var exts []ext
			for _, ln := range lines {
				text := ln[indent:]
				if len(text) == 0 {
					continue
				}
				idx := index[text[0]]
				exts = append(exts, ext{idx, idx + len(text)})
			}
			for k := 0; k+1 < len(exts); k++ {
				e, nx := exts[k], exts[k+1]
				if nx.a != e.b {
					continue // something (spaces) was skipped: the break is at a space
				}
				split := smt.And(smt.Not(smt.Eq(s[e.b-1], sp)), smt.Not(smt.Eq(s[nx.a], sp)))
				nospace := smt.True
				for j := e.a; j < e.b; j++ {
					nospace = smt.And(nospace, smt.Not(smt.Eq(s[j], sp)))
				}
				cond = smt.And(cond, smt.Implies(split, smt.And(nospace, smt.BoolC(e.b-e.a == chars))))
			}
		}
		return spec.TV{V: cond}
	}
}

func init() {
	register(&Prop{
		ID:        "C29",
		Level:     "other",
		Technique: "contract-based deductive verification of the real wrapping function against a line-structure specification; currently bounded: symbolic execution for every text length up to a bound with all characters symbolic",
		MinObls:   100,
		Claim:     "format's contract (terminates; every output line is newline-terminated, starts with the indentation and holds 1..chars further bytes; the line texts are consecutive pieces of the text and everything skipped is a space, so all non-space characters appear in order; a line ends inside a word only if it is full and contains no space) is checked on the real code for every text length up to LEN, every indentation 0-2 and several widths, all characters arbitrary (no newline, no leading space): bounded in the text length.",
		Note:      "bounded stand-in: text lengths 0..8 (quick) / 0..12 (thorough); indentation 0, 1, 2; remaining widths 1, 2, 3, 5 (thorough adds 4, 8). The loop of format is unrolled with an unwinding assertion at len(s)+1 iterations (each iteration must consume a byte): that is the termination obligation. strings.Builder is modelled as a byte accumulator (assumed contract).",
		Assumptions: []string{
			"bounded: text length up to 8 (quick) / 12 (thorough)",
			"strings.Builder accumulates the bytes written to it and String returns them (assumed contract of the standard library)",
		},
		Build: func(c *Ctx) []*vc.Unit {
			maxLen := int64(8)
			c.Sets["CHARS"] = []int64{1, 2, 3, 5}
			if c.Tier == "thorough" {
				maxLen = 12
				c.Sets["CHARS"] = []int64{1, 2, 3, 4, 5, 8}
			}
			var lens []int64
			for i := int64(0); i <= maxLen; i++ {
				lens = append(lens, i)
			}
			c.Sets["TEXTLENS"] = lens
			c.Sets["INDENTS"] = []int64{0, 1, 2}
			return c.ContractUnits("consoleui.format", func(us *UnitSpec) {
				n := us.Enum["n"]
				us.Bounded = fmt.Sprintf("text length %d (all characters symbolic)", n)
				us.MaxPaths = 400000
				us.Replay = c.formatReplay(int(n), int(us.Enum["ind"]), int(us.Enum["chars"]))
				us.Hooks = func(m *sx.Machine) { m.LoopBounds = map[string]int{"consoleui.format#1": int(n)} }
				us.Inputs = func(p *sx.Path, ev *spec.Eval, fn *ssa.Function) map[string]sx.Val {
					c.installStrBuiltins(ev)
					return nil
				}
			})
		},
	})
}
