package props

import (
	"fmt"
	"go/ast"
	"go/types"

	"gocv/smt"
	"gocv/spec"
	"gocv/sx"
	"gocv/vc"

	"golang.org/x/tools/go/ssa"
)

// C19: opcode matcher. A pattern set is a list of (len(Bytes), len(Mask))
// shapes; every byte of Bytes and Mask is symbolic.

type patShape struct{ NB, NM int }
type patSet []patShape

func (s patSet) String() string {
	r := ""
	for _, p := range s {
		if p.NB == p.NM {
			r += fmt.Sprintf("[%d]", p.NB)
		} else {
			r += fmt.Sprintf("[%d/%d]", p.NB, p.NM)
		}
	}
	if r == "" {
		return "[]"
	}
	return r
}

func patSets(tier string) []patSet {
	v := func(ns ...int) patSet {
		var s patSet
		for _, n := range ns {
			s = append(s, patShape{n, n})
		}
		return s
	}
	sets := []patSet{v(), v(1), v(2), v(1, 1), v(1, 2), v(2, 1), v(2, 2), v(1, 1, 1),
		{{0, 0}}, {{1, 2}}, {{2, 1}}, {{1, 1}, {0, 0}}, {{1, 1}, {2, 1}}, v(3), v(2, 2, 1)}
	if tier == "thorough" {
		sets = append(sets, v(1, 2, 2), v(1, 1, 1, 1), v(1, 3), v(2, 2, 2), v(3, 3), v(1, 2, 3), v(2, 1, 2, 1), v(1, 1, 1, 1, 1), patSet{{1, 1}, {1, 1}, {1, 0}})
	}
	return sets
}

type patRec struct {
	B, M []*smt.Term
	Ptr  sx.Val
}

func patMatches(r patRec, bs []*smt.Term) *smt.Term {
	if len(r.M) > len(bs) || len(r.B) < len(r.M) {
		return smt.False
	}
	c := smt.True
	for k := range r.M {
		c = smt.And(c, smt.Eq(smt.BVAnd(smt.BVXor(bs[k], r.B[k]), r.M[k]), smt.BVU(0, 8)))
	}
	return c
}

func patValid(r patRec) *smt.Term {
	if len(r.B) == 0 || len(r.B) != len(r.M) {
		return smt.False
	}
	return smt.Not(smt.Eq(r.M[len(r.M)-1], smt.BVU(0, 8)))
}

// patOverlap: the two (valid) patterns agree on their common masked bits over
// the shorter length, i.e. some byte string matches both (lemma checked by
// the overlap-lemma obligations).
func patOverlap(a, b patRec) *smt.Term {
	n := len(a.M)
	if len(b.M) < n {
		n = len(b.M)
	}
	c := smt.True
	for k := 0; k < n; k++ {
		c = smt.And(c, smt.Eq(smt.BVAnd(smt.BVAnd(smt.BVXor(a.B[k], b.B[k]), a.M[k]), b.M[k]), smt.BVU(0, 8)))
	}
	return c
}

func (c *Ctx) installPatBuiltins(ev *spec.Eval, sets []patSet) {
	B := ev.Builtins
	p := ev.P
	rvPk := c.P.SSA["mltwist/internal/riscv"]
	itT := rvPk.Type("instructionType").Type()
	ptrT := types.NewPointer(itT)
	var pats []patRec
	getSet := func(ev *spec.Eval, a []ast.Expr) patSet {
		k := constArg(ev, a[0], "pattern set index")
		if k < 0 || int(k) >= len(sets) {
			panic(spec.EvalError{Msg: "pattern set index out of range"})
		}
		return sets[k]
	}
	field := func(name string) int {
		st := itT.Underlying().(*types.Struct)
		for i := 0; i < st.NumFields(); i++ {
			if st.Field(i).Name() == name {
				return i
			}
		}
		panic("riscv.instructionType has no field " + name)
	}
	mkSet := func(s patSet) sx.Val {
		pats = nil
		var els []sx.Val
		for i, sh := range s {
			mk := func(pre string, n int) ([]*smt.Term, sx.Val) {
				ts := make([]*smt.Term, n)
				vs := make([]sx.Val, n)
				for k := range ts {
					ts[k] = smt.Var(fmt.Sprintf("p%d.%s%d", i, pre, k), smt.BV(8))
					vs[k] = ts[k]
				}
				return ts, p.NewSlice(types.Typ[types.Uint8], vs)
			}
			bt, bsl := mk("b", sh.NB)
			mt, msl := mk("m", sh.NM)
			st := sx.Zero(itT).(*sx.Struct)
			st.F[field("name")] = sx.Str{S: fmt.Sprintf("p%d", i)}
			st.F[field("opcode")] = &sx.Struct{F: []sx.Val{bsl, msl}}
			ptr := sx.Ptr{Obj: p.Alloc(st)}
			pats = append(pats, patRec{B: bt, M: mt, Ptr: ptr})
			els = append(els, ptr)
		}
		return p.NewSlice(ptrT, els)
	}
	B["patset"] = func(ev *spec.Eval, a []ast.Expr) spec.TV {
		return spec.TV{V: mkSet(getSet(ev, a)), T: types.NewSlice(ptrT)}
	}
	B["patset_invalid"] = func(ev *spec.Eval, a []ast.Expr) spec.TV {
		var cs []*smt.Term
		for _, r := range pats {
			cs = append(cs, smt.Not(patValid(r)))
		}
		return spec.TV{V: smt.Or(cs...)}
	}
	B["patset_ambiguous"] = func(ev *spec.Eval, a []ast.Expr) spec.TV {
		var cs []*smt.Term
		for i := range pats {
			for j := i + 1; j < len(pats); j++ {
				if len(pats[i].B) != len(pats[i].M) || len(pats[j].B) != len(pats[j].M) {
					continue
				}
				cs = append(cs, patOverlap(pats[i], pats[j]))
			}
		}
		return spec.TV{V: smt.Or(cs...)}
	}
	// matcher_of(s): the matcher the real NewMatcher builds from pattern set
	// s; pattern sets NewMatcher rejects end the path (NewMatcher's own
	// contract says when that must happen)
	B["matcher_of"] = func(ev *spec.Eval, a []ast.Expr) spec.TV {
		opcs := mkSet(getSet(ev, a))
		fn := c.Func("opcode.NewMatcher[*riscv.instructionType]")
		saved := p.NoSafety
		p.NoSafety = true
		r := p.Call(fn, []sx.Val{opcs}, nil, nil).(sx.Tuple)
		p.NoSafety = saved
		if e := r[1].(sx.Iface); e.T != nil {
			p.Stop("infeasible")
		}
		return spec.TV{V: r[0], T: fn.Signature.Results().At(0).Type()}
	}
	bytesOf := func(v spec.TV) []*smt.Term {
		sl := v.V.(sx.Slice)
		var out []*smt.Term
		if n, _ := sl.Len.Uint64(); n > 0 {
			for _, e := range p.SliceElems(sl) {
				out = append(out, e.(*smt.Term))
			}
		}
		return out
	}
	B["pat_any_matches"] = func(ev *spec.Eval, a []ast.Expr) spec.TV {
		bs := bytesOf(ev.Eval(a[0]))
		var cs []*smt.Term
		for _, r := range pats {
			cs = append(cs, patMatches(r, bs))
		}
		return spec.TV{V: smt.Or(cs...)}
	}
	B["pat_result_matches"] = func(ev *spec.Eval, a []ast.Expr) spec.TV {
		res := ev.Eval(a[0]).V
		bs := bytesOf(ev.Eval(a[1]))
		var cs []*smt.Term
		for _, r := range pats {
			if sx.SameVal(res, r.Ptr) {
				cs = append(cs, patMatches(r, bs))
			}
		}
		return spec.TV{V: smt.Or(cs...)}
	}
}

// overlapLemmaUnits: for every pair of pattern lengths, the bitwise overlap
// condition is equivalent to the existence of a byte string matching both
// patterns (witness: each pattern's bytes on its own masked bits).
func (c *Ctx) overlapLemmaUnits(maxLen int) []*vc.Unit {
	var units []*vc.Unit
	for n1 := 1; n1 <= maxLen; n1++ {
		for n2 := 1; n2 <= maxLen; n2++ {
			n1, n2 := n1, n2
			u := &vc.Unit{Func: "opcode.lemma", Instance: fmt.Sprintf("overlap-iff-common-string len=%d,%d", n1, n2), MaxPaths: 10}
			u.Run = func(m *sx.Machine) ([]sx.PathResult, error) {
				m = m.Clone()
				return m.ExploreFrom(m.BaseHeap, m.BaseNext, 10, nil, func(p *sx.Path) sx.Val {
					mk := func(pre string, n int) patRec {
						var r patRec
						for k := 0; k < n; k++ {
							r.B = append(r.B, smt.Var(fmt.Sprintf("%s.b%d", pre, k), smt.BV(8)))
							r.M = append(r.M, smt.Var(fmt.Sprintf("%s.m%d", pre, k), smt.BV(8)))
						}
						return r
					}
					a, b := mk("p", n1), mk("q", n2)
					n := n1
					if n2 > n {
						n = n2
					}
					// ⇐: any string matching both forces the overlap condition
					var s, wit []*smt.Term
					for k := 0; k < n; k++ {
						s = append(s, smt.Var(fmt.Sprintf("s%d", k), smt.BV(8)))
						w := smt.BVU(0, 8)
						if k < n1 {
							w = smt.BVAnd(a.B[k], a.M[k])
						}
						if k < n2 {
							w = smt.BVOr(w, smt.BVAnd(smt.BVAnd(b.B[k], b.M[k]), smt.BVNot(func() *smt.Term {
								if k < n1 {
									return a.M[k]
								}
								return smt.BVU(0, 8)
							}())))
						}
						wit = append(wit, w)
					}
					p.Assert("opcode.lemma/common-string-implies-overlap", "lemma", smt.Implies(smt.And(patMatches(a, s), patMatches(b, s)), patOverlap(a, b)), "", "a byte string matching both patterns implies agreement on the common masked bits")
					p.Assert("opcode.lemma/overlap-implies-common-string", "lemma", smt.Implies(patOverlap(a, b), smt.And(patMatches(a, wit), patMatches(b, wit))), "", "agreement on the common masked bits gives a byte string matching both (explicit witness)")
					return nil
				})
			}
			units = append(units, u)
		}
	}
	return units
}

func init() {
	register(&Prop{
		ID:        "C19",
		Level:     "other",
		Technique: "contract-based deductive verification of the real opcode matcher (NewMatcher, Match and everything below them) against the pattern-matching specification; currently bounded: symbolic execution for pattern sets of bounded size with all pattern bytes and masks symbolic",
		MinObls:   150,
		Claim:     "NewMatcher (error exactly when some pattern is malformed or two patterns share a byte string) and Match (found iff some pattern matches the prefix; the result is a pattern of the set that matches) are checked on the real code for every pattern set of at most 3 (thorough 5) patterns of 1-3 bytes with all bytes and masks arbitrary, and every input string of 0-3 arbitrary bytes: bounded in the size of the set, complete over its contents. The equivalence between 'two patterns agree on their common masked bits' and 'some byte string matches both' is discharged as a lemma per pair of lengths.",
		Note:      "bounded stand-in: pattern sets of the listed shapes (including malformed ones: empty, different lengths of bytes and mask); every byte of every pattern, mask and input string is symbolic. The sorts and binary searches of the matcher are executed on symbolic data (all comparison outcomes are explored).",
		Assumptions: []string{
			"bounded: pattern sets of at most 3 (quick) / 5 (thorough) patterns of at most 3 bytes, input strings of at most 3 bytes",
			"the generic matcher is checked for the instantiation *riscv.instructionType (the only one in the program); only the opcode and name fields of the opcoders are used",
			"sort.Slice is modelled by an insertion sort through the real less closure (any comparison-consistent permutation); sort.Search is the real code, interpreted",
		},
		Build: func(c *Ctx) []*vc.Unit {
			sets := patSets(c.Tier)
			var idx []int64
			for i := range sets {
				idx = append(idx, int64(i))
			}
			c.Sets["PATSETS"] = idx
			c.Sets["BSLENS"] = []int64{0, 1, 2, 3}
			bound := "pattern sets of bounded size (all bytes and masks symbolic)"
			mk := func(us *UnitSpec) {
				s := sets[us.Enum["s"]]
				us.Bounded = bound
				us.InstanceName = fmt.Sprintf("set=%s", s)
				if n, ok := us.Enum["n"]; ok {
					us.InstanceName += fmt.Sprintf(" len(bs)=%d", n)
				}
				us.MaxPaths = 500000
				us.Replay = c.patReplay(s, int(us.Enum["n"]))
				us.Inputs = func(p *sx.Path, ev *spec.Eval, fn *ssa.Function) map[string]sx.Val {
					c.installPatBuiltins(ev, sets)
					return nil
				}
			}
			var units []*vc.Unit
			units = append(units, c.genericUnits("opcode.NewMatcher", mk)...)
			units = append(units, c.methodUnits("(*opcode.Matcher", ").Match", mk)...)
			ml := 3
			if c.Tier == "thorough" {
				ml = 4
			}
			units = append(units, c.overlapLemmaUnits(ml)...)
			return units
		},
	})
}
