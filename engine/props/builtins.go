package props

import (
	"fmt"
	"go/ast"
	"go/token"
	"go/types"
	"math/big"
	"strings"

	"gocv/ir"
	"gocv/smt"
	"gocv/spec"
	"gocv/sx"

	"golang.org/x/tools/go/ssa"
)

func bigInt(v int64) *big.Int { return big.NewInt(v) }

// leafEnv interprets the leaves created by leaf(): a RegLoad of key "$name"
// denotes the free variable leaf.<name>; other keys denote per-key variables.
func (c *Ctx) leafEnv(p *sx.Path) *ir.Env {
	return &ir.Env{
		BigLimit: 1, // multiplication and division are uninterpreted symbols shared by code and specification (ground axioms in vc/axioms.go)
		Reg: func(key sx.Str, w int) *smt.Term {
			if !key.Concrete() {
				panic(sx.Unsupported{Msg: "symbolic register key outside the RISC-V environment"})
			}
			if t, ok := p.Ghost["leaf:"+key.S]; ok {
				return smt.Resize(t.(*smt.Term), 8*w)
			}
			// an ordinary register: its full value is a 2040-bit unknown
			return smt.Resize(smt.Var("reg."+key.S, smt.BV(8*255)), 8*w)
		},
		Mem: func(key sx.Str, addr *smt.Term, w int) *smt.Term {
			if !key.Concrete() {
				panic(sx.Unsupported{Msg: "symbolic memory key"})
			}
			m := smt.Var("mem."+key.S, smt.Array(smt.BV(64), smt.BV(8)))
			var r *smt.Term
			for i := 0; i < w; i++ {
				b := smt.Select(m, smt.BVAdd(addr, smt.BVU(uint64(i), 64)))
				if r == nil {
					r = b
				} else {
					r = smt.Concat(b, r)
				}
			}
			return r
		},
	}
}

func (c *Ctx) den(p *sx.Path) *ir.Den {
	env, ok := p.Ghost["env"].(*ir.Env)
	if !ok {
		env = c.leafEnv(p)
	} else {
		// leaves created by leaf() and by contract application ("$..." keys)
		// are resolved here, everything else by the installed environment
		inner := env
		env = &ir.Env{BigLimit: inner.BigLimit, Mem: inner.Mem, Reg: func(key sx.Str, w int) *smt.Term {
			if key.Concrete() && strings.HasPrefix(key.S, "$") {
				if t, ok := p.Ghost["leaf:"+key.S]; ok {
					return smt.Resize(t.(*smt.Term), 8*w)
				}
			}
			return inner.Reg(key, w)
		}}
	}
	return &ir.Den{T: c.IR, P: p, Env: env}
}

// gadgetHook replaces calls of exprtools functions that have a contract by
// that contract: the precondition becomes an obligation of the caller, the
// result is an opaque expression leaf of the promised width about whose value
// exactly the postconditions are assumed. except names the function under
// verification itself (never replaced).
func (c *Ctx) gadgetHook(except string) func(p *sx.Path, fn *ssa.Function, args []sx.Val, site ssa.Instruction) (sx.Val, bool) {
	return func(p *sx.Path, fn *ssa.Function, args []sx.Val, site ssa.Instruction) (sx.Val, bool) {
		name := sx.FuncName(fn)
		if name == except || !strings.HasPrefix(name, "expr/exprtools.") {
			return nil, false
		}
		ct, ok := c.Contracts[name]
		if !ok || len(ct.Ensures) == 0 || ct.Panics != nil {
			return nil, false
		}
		var pkg *types.Package
		if fn.Pkg != nil {
			pkg = fn.Pkg.Pkg
		}
		ev := c.NewEval(p, pkg)
		d := c.den(p)
		// bind parameters; enum variables take the actual values
		enumOf := map[string]bool{}
		for _, e := range ct.Enums {
			enumOf[e.Var] = true
		}
		for i, prm := range fn.Params {
			ev.Vars[prm.Name()] = spec.TV{V: args[i], T: prm.Type()}
			if enumOf[prm.Name()] {
				k, ok := sx.ConstInt(args[i])
				if !ok {
					return nil, false
				}
				ev.Vars[prm.Name()] = spec.TV{V: big.NewInt(k)}
			}
		}
		for key, in := range ct.Opts {
			if !strings.HasPrefix(key, "input:") {
				continue
			}
			// "input:e leaf(ew)": ew is the width of the actual argument e
			in = strings.TrimSpace(in)
			if strings.HasPrefix(in, "leaf(") && strings.HasSuffix(in, ")") {
				v := strings.TrimSuffix(strings.TrimPrefix(in, "leaf("), ")")
				if !enumOf[v] {
					continue
				}
				arg, ok := ev.Vars[strings.TrimPrefix(key, "input:")]
				if !ok {
					continue
				}
				if _, done := ev.Vars[v]; done && ev.Vars[v].T == nil {
					if _, isBig := ev.Vars[v].V.(*big.Int); isBig {
						continue
					}
				}
				func() {
					defer func() { recover() }()
					ev.Vars[v] = spec.TV{V: big.NewInt(int64(d.Width(asIface(arg))))}
				}()
			}
		}
		for _, e := range ct.Enums {
			if _, ok := ev.Vars[e.Var]; !ok {
				return nil, false
			}
		}
		okc := true
		var res sx.Val
		func() {
			defer func() {
				if r := recover(); r != nil {
					if _, isE := r.(spec.EvalError); isE {
						okc = false
						return
					}
					panic(r)
				}
			}()
			for k, r := range ct.Requires {
				p.Assert(fmt.Sprintf("%s/requires/%d", name, k+1), "pre", ev.Bool(r.Expr), fmt.Sprintf("%s:%d", relFile(ct.File), r.Line), "precondition of "+name+": "+r.Text)
			}
			// the width promised by the first postcondition "width(result) == W"
			w := -1
			for _, e := range ct.Ensures {
				if be, ok := e.Expr.(*ast.BinaryExpr); ok && be.Op == token.EQL {
					if call, ok := be.X.(*ast.CallExpr); ok {
						if id, ok := call.Fun.(*ast.Ident); ok && id.Name == "width" {
							w = int(constArg(ev, be.Y, "width"))
							break
						}
					}
				}
			}
			if w < 0 {
				okc = false
				return
			}
			n := len(p.Ghost)
			lname := fmt.Sprintf("$r%d", n)
			if w > 0 {
				p.Ghost["leaf:"+lname] = p.Fresh("res."+strings.TrimPrefix(name, "expr/exprtools."), smt.BV(8*w))
			} else {
				p.Ghost["leaf:"+lname] = nil
			}
			res = c.IR.MkRegLoad(lname, w)
			ev.Vars["result"] = spec.TV{V: res, T: fn.Signature.Results().At(0).Type()}
			for _, e := range ct.Ensures {
				p.Assume(ev.Bool(e.Expr))
			}
		}()
		if !okc {
			return nil, false
		}
		return res, true
	}
}

func constArg(ev *spec.Eval, a ast.Expr, what string) int64 {
	v := ev.Eval(a)
	if v.T == nil {
		if b, ok := v.V.(*big.Int); ok {
			return b.Int64()
		}
	}
	if k, ok := sx.ConstInt(v.V); ok {
		return k
	}
	panic(spec.EvalError{Msg: what + " must be a concrete integer"})
}

func raw(t *smt.Term) spec.TV { return spec.TV{V: t, T: nil} }

func (c *Ctx) installBuiltins(ev *spec.Eval) {
	B := ev.Builtins
	p := ev.P
	// leaf(name?, w): a symbolic expression leaf of w bytes
	B["leaf"] = func(ev *spec.Eval, a []ast.Expr) spec.TV {
		w := constArg(ev, a[len(a)-1], "leaf width")
		n := len(p.Ghost)
		name := fmt.Sprintf("$l%d", n)
		if w > 0 {
			p.Ghost["leaf:"+name] = smt.Var(fmt.Sprintf("leaf%d.w%d", n, w), smt.BV(int(8*w)))
		}
		return spec.TV{V: c.IR.MkRegLoad(name, int(w)), T: c.IR.RegLoad}
	}
	// constleaf(w): an expr.Const of w symbolic bytes
	B["constleaf"] = func(ev *spec.Eval, a []ast.Expr) spec.TV {
		w := constArg(ev, a[0], "constant width")
		n := len(p.Ghost)
		p.Ghost[fmt.Sprintf("c%d", n)] = nil
		var bs []*smt.Term
		if w > 0 {
			bs = ir.SplitBytes(smt.Var(fmt.Sprintf("const%d.w%d", n, w), smt.BV(int(8*w))))
		}
		return spec.TV{V: c.IR.MkConst(p, bs), T: c.IR.Const}
	}
	// val(e): the value of an expression as a raw bit-vector of 8·width bits
	B["val"] = func(ev *spec.Eval, a []ast.Expr) spec.TV {
		v := ev.Eval(a[0])
		t := c.den(p).Expr(asIface(v))
		if t == nil {
			panic(spec.EvalError{Msg: "val() of a zero-width expression"})
		}
		return raw(t)
	}
	B["width"] = func(ev *spec.Eval, a []ast.Expr) spec.TV {
		v := ev.Eval(a[0])
		return spec.TV{V: big.NewInt(int64(c.den(p).Width(asIface(v)))), T: nil}
	}
	// ext(t, w): zero-extend or truncate a raw term to w bytes
	B["ext"] = func(ev *spec.Eval, a []ast.Expr) spec.TV {
		return raw(smt.Resize(ev.Term(ev.Eval(a[0])), int(8*constArg(ev, a[1], "width"))))
	}
	// bits(t, n): zero-extend or truncate to n bits
	B["bits"] = func(ev *spec.Eval, a []ast.Expr) spec.TV {
		return raw(smt.Resize(ev.Term(ev.Eval(a[0])), int(constArg(ev, a[1], "bit count"))))
	}
	B["sbits"] = func(ev *spec.Eval, a []ast.Expr) spec.TV {
		return raw(smt.SResize(ev.Term(ev.Eval(a[0])), int(constArg(ev, a[1], "bit count"))))
	}
	// sextw(t, w): sign-extend or truncate to w bytes
	B["sextw"] = func(ev *spec.Eval, a []ast.Expr) spec.TV {
		return raw(smt.SResize(ev.Term(ev.Eval(a[0])), int(8*constArg(ev, a[1], "width"))))
	}
	bin := func(f func(x, y *smt.Term) *smt.Term) spec.Builtin {
		return func(ev *spec.Eval, a []ast.Expr) spec.TV {
			x, y := ev.Eval(a[0]), ev.Eval(a[1])
			xt, yt := coerceRaw(ev, x, y)
			return raw(f(xt, yt))
		}
	}
	B["slt"] = bin(smt.BVSlt)
	B["sle"] = bin(smt.BVSle)
	B["ult"] = bin(smt.BVUlt)
	B["ule"] = bin(smt.BVUle)
	B["ashr"] = bin(smt.BVAshr)
	B["lshr"] = bin(smt.BVLshr)
	B["shl"] = bin(smt.BVShl)
	B["nand"] = bin(func(x, y *smt.Term) *smt.Term { return smt.BVNot(smt.BVAnd(x, y)) })
	// umul/udiv/urem/sdiv/srem: the operations of the IR at the operand
	// width; above 64 bits multiplication and division are uninterpreted
	// symbols shared with the code side
	B["umul"] = bin(func(x, y *smt.Term) *smt.Term { return c.den(p).BinOp(ir.OpMul, x, y, x.S.W/8) })
	B["udiv"] = bin(func(x, y *smt.Term) *smt.Term { return c.den(p).BinOp(ir.OpDiv, x, y, x.S.W/8) })
	B["urem"] = bin(func(x, y *smt.Term) *smt.Term {
		d := c.den(p)
		w := x.S.W / 8
		q := d.BinOp(ir.OpDiv, x, y, w)
		return smt.BVSub(x, d.BinOp(ir.OpMul, q, y, w))
	})
	B["absv"] = func(ev *spec.Eval, a []ast.Expr) spec.TV {
		t := ev.Term(ev.Eval(a[0]))
		neg := smt.Eq(smt.Extract(t, t.S.W-1, t.S.W-1), smt.BVU(1, 1))
		return raw(smt.Ite(neg, smt.BVNeg(t), t))
	}
	// sdivspec: truncating signed division (SMT-LIB bvsdiv; the overflow
	// case MIN / -1 yields MIN, the zero-divisor case is excluded by callers)
	B["sdivspec"] = bin(func(x, y *smt.Term) *smt.Term {
		if x.S.W <= 0 {
			return smt.BVSDiv(x, y)
		}
		// above 64 bits: |x| udiv |y| with the quotient's sign, over the
		// shared uninterpreted division
		d := c.den(p)
		w := x.S.W / 8
		nx := smt.Eq(smt.Extract(x, x.S.W-1, x.S.W-1), smt.BVU(1, 1))
		ny := smt.Eq(smt.Extract(y, y.S.W-1, y.S.W-1), smt.BVU(1, 1))
		ax := smt.Ite(nx, smt.BVNeg(x), x)
		ay := smt.Ite(ny, smt.BVNeg(y), y)
		q := d.BinOp(ir.OpDiv, ax, ay, w)
		return smt.Ite(smt.Not(smt.Eq(nx, ny)), smt.BVNeg(q), q)
	})
	B["lowmask"] = func(ev *spec.Eval, a []ast.Expr) spec.TV {
		n := constArg(ev, a[0], "bit count")
		w := int(8 * constArg(ev, a[1], "width"))
		m := new(big.Int).Lsh(big.NewInt(1), uint(n))
		m.Sub(m, big.NewInt(1))
		return raw(smt.BVC(m, w))
	}
	B["msb"] = func(ev *spec.Eval, a []ast.Expr) spec.TV {
		t := ev.Term(ev.Eval(a[0]))
		return spec.TV{V: smt.Eq(smt.Extract(t, t.S.W-1, t.S.W-1), smt.BVU(1, 1)), T: nil}
	}
	B["bitat"] = func(ev *spec.Eval, a []ast.Expr) spec.TV {
		t := ev.Term(ev.Eval(a[0]))
		i := ev.Term(ev.Eval(a[1]))
		i = smt.Resize(i, t.S.W)
		return spec.TV{V: smt.Eq(smt.BVAnd(smt.BVLshr(t, i), smt.BVU(1, t.S.W)), smt.BVU(1, t.S.W)), T: nil}
	}
	B["ones"] = func(ev *spec.Eval, a []ast.Expr) spec.TV {
		return raw(smt.BVNot(smt.BVU(0, int(8*constArg(ev, a[0], "width")))))
	}
	B["zero"] = func(ev *spec.Eval, a []ast.Expr) spec.TV {
		return raw(smt.BVU(0, int(8*constArg(ev, a[0], "width"))))
	}
	B["bv"] = func(ev *spec.Eval, a []ast.Expr) spec.TV {
		v := ev.Eval(a[0])
		n := int(constArg(ev, a[1], "bit count"))
		if v.T == nil {
			if b, ok := v.V.(*big.Int); ok {
				return raw(smt.BVC(b, n))
			}
		}
		return raw(smt.Resize(ev.Term(v), n))
	}
	// shape(n1, n2, ...): an input of the parameter's type, all scalar leaves
	// symbolic, slices of the given concrete lengths (depth-first; -1 = nil)
	B["shape"] = func(ev *spec.Eval, a []ast.Expr) spec.TV {
		var dims []int64
		for _, x := range a {
			dims = append(dims, constArg(ev, x, "slice length"))
		}
		return spec.TV{V: ShapeSpec{Dims: dims}}
	}
	// sizeof(x): size in bytes of x's static type
	B["sizeof"] = func(ev *spec.Eval, a []ast.Expr) spec.TV {
		v := ev.Eval(a[0])
		if v.T == nil {
			panic(spec.EvalError{Msg: "sizeof of untyped value"})
		}
		return spec.TV{V: big.NewInt(types.SizesFor("gc", "amd64").Sizeof(v.T)), T: nil}
	}
	// constval(n): an expr.Const struct value of n symbolic bytes
	B["constval"] = func(ev *spec.Eval, a []ast.Expr) spec.TV {
		tv := B["constleaf"](ev, a)
		return spec.TV{V: tv.V.(sx.Iface).V, T: c.IR.Const}
	}
	// bytes(n): a fresh []byte of n symbolic bytes (capacity n)
	B["bytes"] = func(ev *spec.Eval, a []ast.Expr) spec.TV {
		n := constArg(ev, a[0], "length")
		k := len(p.Ghost)
		p.Ghost[fmt.Sprintf("b%d", k)] = nil
		els := make([]sx.Val, n)
		for i := range els {
			els[i] = smt.Var(fmt.Sprintf("bytes%d.%d", k, i), smt.BV(8))
		}
		return spec.TV{V: p.NewSlice(types.Typ[types.Uint8], els), T: types.NewSlice(types.Typ[types.Uint8])}
	}
	// fresh(s): the backing store of s was allocated during the call
	B["fresh"] = func(ev *spec.Eval, a []ast.Expr) spec.TV {
		v := ev.Eval(a[0])
		entry, _ := p.Ghost["entryNext"].(int)
		switch x := v.V.(type) {
		case sx.Slice:
			if n, ok := x.Len.Uint64(); ok && n == 0 {
				return spec.TV{V: smt.True}
			}
			return spec.TV{V: smt.BoolC(x.Obj > entry)}
		case sx.Ptr:
			return spec.TV{V: smt.BoolC(x.Obj > entry)}
		}
		panic(spec.EvalError{Msg: "fresh() of a value that is neither slice nor pointer"})
	}
	// unchanged(s): every element of slice s holds the value it held on entry
	B["unchanged"] = func(ev *spec.Eval, a []ast.Expr) spec.TV {
		v := ev.Eval(a[0])
		sl, ok := v.V.(sx.Slice)
		if !ok {
			panic(spec.EvalError{Msg: "unchanged() of a non-slice"})
		}
		if sl.Obj == 0 || ev.OldHeap == nil {
			return spec.TV{V: smt.True}
		}
		now := p.SliceElems(sl)
		saved := p.Heap
		p.Heap = ev.OldHeap
		old := p.SliceElems(sl)
		p.Heap = saved
		c := smt.True
		for i := range now {
			c = smt.And(c, p.EqVal(now[i], old[i]))
		}
		return spec.TV{V: c}
	}
	// sameobj(a, b): two slices share their backing array
	B["sameobj"] = func(ev *spec.Eval, a []ast.Expr) spec.TV {
		x, y := ev.Eval(a[0]).V.(sx.Slice), ev.Eval(a[1]).V.(sx.Slice)
		return spec.TV{V: smt.BoolC(x.Obj == y.Obj && x.Obj != 0)}
	}
	// heap_unchanged(): no object that existed at entry was written
	B["heap_unchanged"] = func(ev *spec.Eval, a []ast.Expr) spec.TV {
		for id, v := range ev.OldHeap {
			if now, ok := p.Heap[id]; !ok || !sameHeapVal(now, v) {
				return spec.TV{V: smt.False}
			}
		}
		return spec.TV{V: smt.True}
	}
	B["isnil"] = func(ev *spec.Eval, a []ast.Expr) spec.TV {
		v := ev.Eval(a[0])
		switch x := v.V.(type) {
		case sx.Iface:
			return spec.TV{V: smt.BoolC(x.T == nil)}
		case sx.Ptr:
			return spec.TV{V: smt.BoolC(x.Obj == 0)}
		case sx.Slice:
			return spec.TV{V: smt.BoolC(x.Obj == 0)}
		}
		panic(spec.EvalError{Msg: "isnil of scalar"})
	}
}

func coerceRaw(ev *spec.Eval, x, y spec.TV) (*smt.Term, *smt.Term) {
	if x.T == nil {
		if b, ok := x.V.(*big.Int); ok {
			yt := ev.Term(y)
			return smt.BVC(b, yt.S.W), yt
		}
	}
	if y.T == nil {
		if b, ok := y.V.(*big.Int); ok {
			xt := ev.Term(x)
			return xt, smt.BVC(b, xt.S.W)
		}
	}
	return ev.Term(x), ev.Term(y)
}

func asIface(v spec.TV) sx.Val {
	if i, ok := v.V.(sx.Iface); ok {
		return i
	}
	// a concrete struct value of an expression type (e.g. expr.Const result)
	if v.T != nil {
		return sx.Iface{T: v.T, V: v.V}
	}
	panic(spec.EvalError{Msg: fmt.Sprintf("not an expression value: %T", v.V)})
}
