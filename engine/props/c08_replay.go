package props

import (
	"fmt"
	"strings"

	"gocv/vc"
)

// partitionReplay runs the real NewCode on the layout and compares with the
// partition computed from the layout description.
func (c *Ctx) partitionReplay(l codeLayout) func(o *vc.Outcome) string {
	return func(o *vc.Outcome) string {
		al := insAlphabet()
		var ins []string
		for _, i := range l.Ins {
			ins = append(ins, fmt.Sprintf("\t\tmkAt(0x%x, 0x%x, %d, func(a, t uint64) []expr.Effect { return %s }),", i.Addr, i.Target, al[i.T].Type, templateSrc(i.T)))
		}
		want, msg := specPartition(l)
		var ws []string
		for _, b := range want {
			var as []string
			for _, a := range b {
				as = append(as, fmt.Sprintf("0x%x", a))
			}
			ws = append(ws, "{"+strings.Join(as, ", ")+"}")
		}
		src := `package deps

import (
	"fmt"
	"testing"

	"mltwist/internal/parser"
	"mltwist/pkg/expr"
	"mltwist/pkg/model"
)

type gocvDetails struct{}

func (gocvDetails) Name() string   { return "t" }
func (gocvDetails) String() string { return "t" }

` + irHelpersSrc + `
func mkAt(a, t uint64, typ uint64, f func(a, t uint64) []expr.Effect) parser.Instruction {
	return parser.Instruction{Type: model.Type(typ), Addr: model.Addr(a), Bytes: []byte{0x10, 0x11, 0x12, 0x13}, Effects: f(a, t), Details: gocvDetails{}}
}

func TestGocvReplay(t *testing.T) {
	seq := []parser.Instruction{
` + strings.Join(ins, "\n") + `
	}
	mustFail := ` + fmt.Sprintf("%q", msg) + `
	want := [][]uint64{` + strings.Join(ws, ", ") + `}
	code, err := NewCode(` + fmt.Sprintf("0x%x", l.Entry) + `, seq)
	if (err != nil) != (mustFail != "") {
		t.Fatalf("NewCode: error = %v; by the property it must fail iff an entry/target is not an instruction start (%q)", err, mustFail)
	}
	if err != nil {
		return
	}
	var got [][]uint64
	for _, b := range code.Blocks() {
		var as []uint64
		for _, i := range b.Instructions() {
			as = append(as, uint64(i.Begin()))
		}
		got = append(got, as)
	}
	if fmt.Sprintf("%x", got) != fmt.Sprintf("%x", want) {
		t.Fatalf("blocks %x, the property prescribes %x", got, want)
	}
}
`
		return replayVerdict(c.P.RepoDir, "internal/deps", src)
	}
}
