package props

import (
	"fmt"
	"go/ast"
	"go/types"
	"strings"

	"gocv/smt"
	"gocv/spec"
	"gocv/sx"
	"gocv/vc"

	"golang.org/x/tools/go/ssa"
)

// C22: console input. A session is a script of input lines: a concrete prefix
// that brings the UI into a mode and state, then one line built from a
// template (literal text and runs of arbitrary bytes). UI.Run is executed on
// the real UI objects; the path ends when the script is exhausted.

type lineTemplate []string // segments: "?n" = n arbitrary bytes, anything else literal

func (t lineTemplate) String() string { return strings.Join(t, "") }

type uiSession struct {
	Prog   int
	Prefix []string
	Line   lineTemplate
	Height int // terminal height
	Then   []string // concrete lines typed after the template line
}

func (s uiSession) String() string {
	if len(s.Then) > 0 {
		return fmt.Sprintf("%s h=%d %q then %q then %q", uiPrograms()[s.Prog].Name, s.Height, s.Prefix, s.Line.String(), s.Then)
	}
	return fmt.Sprintf("%s h=%d %q then %q", uiPrograms()[s.Prog].Name, s.Height, s.Prefix, s.Line.String())
}

func uiSessions(tier string) []uiSession {
	var out []uiSession
	sym := func(n int) string { return fmt.Sprintf("?%d", n) }
	maxSym := 3
	if tier == "thorough" {
		maxSym = 5
	}
	type ctx struct {
		prog   int
		prefix []string
		cmds   []string
		full   bool // every template, not only the short list
		height int
	}
	dis := []string{"down", "up", "move", "bounds", "find", "goto", "entrypoint", "alllines", "emulate", "quit", "help"}
	emu := []string{"forward", "memories", "memory", "regmod", "quit", "help"}
	mem := []string{"down", "up", "goto", "address", "quit", "help"}
	ctxs := []ctx{
		{0, nil, dis, true, 24},
		{1, nil, dis, false, 24},
		{2, nil, dis, false, 9},
		{3, nil, dis, false, 40},
		{1, []string{"m 1 2"}, dis, false, 24},                              // after an instruction move (accepted or not)
		{2, []string{"m 0 6"}, dis, false, 24},                              // after a block move
		{1, []string{"d 6"}, dis, false, 7},                                 // cursor near the end, small screen
		{1, []string{"g 10"}, dis, false, 24},                               // cursor on the last line
		{0, []string{"d 1", "e"}, emu, true, 24},                            // emulator, nothing executed
		{0, []string{"d 1", "e", "s", "5"}, emu, false, 24},                 // after one step (x1 typed in)
		{2, []string{"d 3", "e", "s", "5", "7"}, emu, false, 12},            // after add x3,x1,x2
		{0, []string{"d 1", "e", "m memory"}, mem, true, 24},                // memory view of the program memory
		{0, []string{"d 1", "e", "m nosuchmemory"}, mem, false, 24},         // memory view of a memory that does not exist
		{3, []string{"d 2", "e", "s", "9", "4096", "m memory"}, mem, false, 10}, // after a store
	}
	if tier == "thorough" {
		for i := range ctxs {
			ctxs[i].full = true
		}
	}
	for _, cx := range ctxs {
		add := func(t lineTemplate) { out = append(out, uiSession{cx.prog, cx.prefix, t, cx.height, nil}) }
		for n := 0; n <= maxSym; n++ {
			add(lineTemplate{sym(n)})
		}
		for _, k := range cx.cmds {
			add(lineTemplate{k})
			add(lineTemplate{k, " ", sym(2)})
			add(lineTemplate{k, " ", sym(1), " ", sym(1)})
			if cx.full {
				add(lineTemplate{k, " ", sym(1), " ", sym(2)})
				add(lineTemplate{k, "  ", sym(1), " ", sym(1), " ", sym(1)})
				add(lineTemplate{k, " 9223372036854775807"})
				add(lineTemplate{k, " 1 9223372036854775808"})
			}
		}
	}
	// a line that moves a cursor to an arbitrary accepted place, then commands
	// that use the cursor
	type follow struct {
		prog   int
		prefix []string
		moves  []string
		then   [][]string
		height int
	}
	fl := []follow{
		{1, nil, []string{"goto", "down", "up"}, [][]string{{"e"}, {"find x"}, {"d 1"}, {"u 1"}, {"m"}, {"b"}, {"al"}}, 24},
		{2, []string{"d 2"}, []string{"goto", "down", "up"}, [][]string{{"e", "s"}, {"find x"}, {"d 1"}, {"u 1"}}, 9},
		{0, []string{"d 1", "e", "m memory"}, []string{"goto", "down", "up", "address"}, [][]string{{"d 1"}, {"u 1"}, {"a 0"}}, 24},
		{3, []string{"d 2", "e", "s", "9", "4096", "m memory"}, []string{"goto", "down", "address"}, [][]string{{"d 1"}, {"u 1"}}, 10},
	}
	for _, f := range fl {
		for _, mv := range f.moves {
			for _, th := range f.then {
				out = append(out, uiSession{f.prog, f.prefix, lineTemplate{mv, " ", sym(2)}, f.height, th})
			}
		}
	}
	return out
}

func templateStr(t lineTemplate, name string) sx.Str {
	var bs []*smt.Term
	k := 0
	for _, seg := range t {
		if strings.HasPrefix(seg, "?") {
			var n int
			fmt.Sscanf(seg[1:], "%d", &n)
			for i := 0; i < n; i++ {
				bs = append(bs, smt.Var(fmt.Sprintf("%s.%d", name, k), smt.BV(8)))
				k++
			}
			continue
		}
		for i := 0; i < len(seg); i++ {
			bs = append(bs, smt.BVU(uint64(seg[i]), 8))
		}
	}
	if len(bs) == 0 {
		return sx.Str{}
	}
	return sx.MkBytesStr(bs)
}

func (c *Ctx) installUIBuiltins(ev *spec.Eval, world *uiWorld) {
	B := ev.Builtins
	p := ev.P
	uiT := types.NewPointer(c.pkgType("mltwist/internal/consoleui", "UI"))
	B["ui_of_session"] = func(ev *spec.Eval, a []ast.Expr) spec.TV {
		return spec.TV{V: world.ui, T: uiT}
	}
	// typed(lines...): the script of standard input
	B["session_typed"] = func(ev *spec.Eval, a []ast.Expr) spec.TV {
		return spec.TV{V: smt.True}
	}
	_ = p
}

func uiSessionUnits(c *Ctx, contract string, sessions []uiSession, mk func(us *UnitSpec, s uiSession, world *uiWorld)) []*vc.Unit {
	parser := c.rv64Parser()
	var idx []int64
	for i := range sessions {
		idx = append(idx, int64(i))
	}
	c.Sets["SESSIONS"] = idx
	return c.ContractUnits(contract, func(us *UnitSpec) {
		s := sessions[us.Enum["s"]]
		us.InstanceName = fmt.Sprintf("s=%d %s", us.Enum["s"], s)
		us.Bounded = "console sessions of the corpus (line templates with arbitrary bytes)"
		us.MaxPaths = 5000
		world := &uiWorld{}
		us.Prepare = func(p *sx.Path) {
			*world = *c.buildUIWorld(p, uiPrograms()[s.Prog], parser)
			// the prefix of the session (concrete lines) is typed once
			var script []sx.Str
			for _, l := range s.Prefix {
				script = append(script, sx.Str{S: l})
			}
			p.Ghost["stdin"] = script
			p.Ghost["stdin.stop"] = true
			p.NoSafety = false // a panic while the prefix is typed is a violation too
			func() {
				defer func() {
					if r := recover(); r != nil {
						if e, ok := sx.IsPathEnd(r); ok {
							if e != "stdin-exhausted" {
								for _, o := range p.Obls {
									if o.Cond.IsFalse() {
										world.prefixPanic = append(world.prefixPanic, o)
									}
								}
								if len(world.prefixPanic) == 0 {
									world.prefixPanic = append(world.prefixPanic, sx.Obl{Name: "(*consoleui.UI).Run/session-prefix", Kind: "panic", Note: "the session prefix ends with: " + e})
								}
							}
							return
						}
						panic(r)
					}
				}()
				for len(p.Ghost["stdin"].([]sx.Str)) > 0 {
					p.Call(c.Func("(*consoleui.UI).processCommand"), []sx.Val{world.ui}, nil, nil)
				}
			}()
			p.NoSafety = true
		}
		us.CallHook = c.uiHook
		// a session path executes some 10^5 instructions; a command that
		// does not come back (an endless loop) is reported, not followed
		us.Hooks = func(m *sx.Machine) { m.MaxSteps = 3_000_000 }
		us.Inputs = func(p *sx.Path, ev *spec.Eval, fn *ssa.Function) map[string]sx.Val {
			c.installUIBuiltins(ev, world)
			c.installStrBuiltins(ev)
			for _, o := range world.prefixPanic {
				p.Assert(o.Name, o.Kind, smt.False, o.Pos, o.Note+" (while the session prefix is typed)")
			}
			script := []sx.Str{templateStr(s.Line, "line")}
			for _, l := range s.Then {
				script = append(script, sx.Str{S: l})
			}
			p.Ghost["stdin"] = script
			p.Ghost["stdin.stop"] = true
			p.Ghost["term.height"] = smt.BVU(uint64(s.Height), 64)
			env := c.leafEnv(p)
			env.BigLimit = 0
			p.Ghost["env"] = env
			return nil
		}
		if mk != nil {
			mk(us, s, world)
		}
	})
}

func init() {
	register(&Prop{
		ID:        "C22",
		Level:     "other",
		Technique: "contract-based deductive verification (safety obligations: index, slice, nil, type assertion, division, allocation, explicit panic) of the real console UI executed on scripted sessions whose last line contains arbitrary bytes; currently bounded in the session corpus",
		MinObls:   2000,
		Claim:     "UI.Run is executed on the real UI, mode, view, code-model, emulator and memory objects for every session of the corpus: a concrete prefix of lines that reaches a mode and state (disassembler, after instruction and block moves; emulator before and after steps; memory view of an existing and of a missing memory), followed by one line made of literal command words and runs of arbitrary bytes (every command of the mode with 0-3 arguments of arbitrary bytes, surplus arguments, doubled spaces, numbers at the ends of the int range) or of arbitrary bytes only, on terminals of several heights (arbitrary heights are the subject of C24). No index, slice, nil-dereference, nil-function call, type assertion, division, allocation or explicit panic obligation may be reachable; the screen is re-rendered after the line.",
		Note:      "bounded stand-in: sessions of the corpus; the bytes of the last line are symbolic (all parse outcomes of strings.Split, the command map, strconv.Atoi, the address and value parsers are explored). Commands reading further input end the path at the end of the script. I/O errors and resource exhaustion are not modelled.",
		Assumptions: []string{
			"bounded: console sessions of the corpus (4 programs; prefixes of at most 6 lines; one line with at most 4, thorough 6, arbitrary bytes)",
			"terminal.GetSize returns an error or the height of the session; regexp.CompilePOSIX fails or succeeds arbitrarily and MatchString is an arbitrary predicate of the text; strings.Split, strings.Join, strings.Repeat, strings.Builder, strconv and math/big behave as documented (assumed contracts)",
			"the floating-point window computation int(math.Floor(float64(n)/(math.Phi+1))) is evaluated in 80-bit fixed point (exact for 0 <= n < 2^31)",
			"calls of expreval.* are replaced by their contracts (C10), expr.ConstUint by its contract (C27)",
			"symbolic strings are ranged over byte-wise (bytes below 0x80 assumed where a string is ranged over rune by rune)",
		},
		Build: func(c *Ctx) []*vc.Unit {
			return uiSessionUnits(c, "(*consoleui.UI).Run", uiSessions(c.Tier), nil)
		},
	})
}

// uiHook: contracts of the constant arithmetic (C10, C27) at call sites, and a
// case split at Cursor.Set: a new cursor value inside the valid range is
// split into its (finitely many) values, so that the rendering that follows
// runs on a concrete cursor. The real Set is executed in every case.
func (c *Ctx) uiHook(p *sx.Path, fn *ssa.Function, args []sx.Val, site ssa.Instruction) (sx.Val, bool) {
	if r, ok := c.valueHook(p, fn, args, site); ok {
		return r, true
	}
	if sx.FuncName(fn) != "(*consoleui/internal/cursor.Cursor).Set" {
		return nil, false
	}
	v, ok := args[1].(*smt.Term)
	if !ok || v.IsConst() {
		return nil, false
	}
	recv, ok := args[0].(sx.Ptr)
	if !ok || recv.Obj == 0 {
		return nil, false
	}
	curT := c.pkgType("mltwist/internal/consoleui/internal/cursor", "Cursor")
	cs, ok := p.Load(recv, "cursor").(*sx.Struct)
	if !ok {
		return nil, false
	}
	max, okm := sx.ConstInt(cs.F[fieldIdx(curT, "maxValue")])
	if !okm || max > 4096 {
		return nil, false
	}
	if p.Decide(smt.BVSlt(v, smt.BVU(0, 64))) || p.Decide(smt.BVSle(smt.BVI(max, 64), v)) {
		// out of range: Set is expected to reject it, whatever the value.
		// Should it store the value all the same, the sessions that follow
		// run on each value it can have (a cursor without a bound is
		// reported, not followed)
		r := p.Call(fn, []sx.Val{recv, v}, nil, nil)
		cs := p.Load(recv, "cursor").(*sx.Struct)
		vi := fieldIdx(curT, "value")
		if cur, isT := cs.F[vi].(*smt.Term); isT && !cur.IsConst() {
			k, ok := p.TryConcretize(cur, 8192)
			if !ok {
				panic(sx.Unsupported{Msg: "cursor.Set stored a value without a bound"})
			}
			ns := *cs
			ns.F = append([]sx.Val{}, cs.F...)
			ns.F[vi] = k
			p.StoreTo(recv, &ns, "cursor")
		}
		return r, true
	}
	for k := int64(0); k < max; k++ {
		if k == max-1 || p.Decide(smt.Eq(v, smt.BVI(k, 64))) {
			p.Assume(smt.Eq(v, smt.BVI(k, 64)))
			return p.Call(fn, []sx.Val{recv, smt.BVI(k, 64)}, nil, nil), true
		}
	}
	return nil, false
}
