package props

import (
	"fmt"
	"go/ast"
	"go/types"
	"strings"

	"gocv/smt"
	"gocv/spec"
	"gocv/sx"
	"gocv/vc"

	"golang.org/x/tools/go/ssa"
)

// Histories of the memory checks (C14, C15, C16): initial blocks (lengths)
// and a sequence of writes (write width, width of the written expression).
type memHist struct {
	Blocks []int
	Stores [][2]int
	// Heavy histories (many overlap patterns) are read at one width only in
	// the quick tier.
	Heavy bool
	// Fixed gives concrete begin addresses to the blocks (fewer overlap
	// patterns to explore: only the writes and the read are placed freely).
	Fixed []uint64
	// Wide histories are read with the wide load width only (loads of more
	// than 32 bytes: shift amounts above 255 bits), all others never with it.
	Wide bool
	// StoreAt fixes the address of the j-th write (0: arbitrary).
	StoreAt []uint64
}

func (h memHist) String() string {
	if h.StoreAt != nil {
		return fmt.Sprintf("blocks%v@%x stores%v@%x", h.Blocks, h.Fixed, h.Stores, h.StoreAt)
	}
	if h.Fixed != nil {
		return fmt.Sprintf("blocks%v@%x stores%v", h.Blocks, h.Fixed, h.Stores)
	}
	return fmt.Sprintf("blocks%v stores%v", h.Blocks, h.Stores)
}

type histRec struct {
	Addr *smt.Term // 64 bits
	Len  int
	Val  *smt.Term // 8*Len bits, little-endian value
}

type histState struct {
	Recs   []histRec
	Frozen map[int]sx.Val // heap objects that must not be written after the set-up
	// for NewBytes: the block list under test
	BlockAddrs []*smt.Term
	BlockLens  []int
}

// wideLoad is the load width used for the wide histories.
const wideLoad = 40

func nowrapTerm(addr *smt.Term, n int) *smt.Term {
	if n == 0 {
		return smt.True
	}
	// addr + n <= 2^64 - 1: the end of the range is still an address
	return smt.BVUle(addr, smt.BVU(^uint64(0)-uint64(n), 64))
}

func (hs *histState) has(x *smt.Term) *smt.Term {
	var cs []*smt.Term
	for _, r := range hs.Recs {
		if r.Len == 0 {
			continue
		}
		cs = append(cs, smt.And(smt.BVUle(r.Addr, x), smt.BVUlt(x, smt.BVAdd(r.Addr, smt.BVU(uint64(r.Len), 64)))))
	}
	return smt.Or(cs...)
}

func (hs *histState) byteAt(x *smt.Term) *smt.Term {
	r := smt.BVU(0, 8)
	for _, rec := range hs.Recs {
		if rec.Len == 0 {
			continue
		}
		in := smt.And(smt.BVUle(rec.Addr, x), smt.BVUlt(x, smt.BVAdd(rec.Addr, smt.BVU(uint64(rec.Len), 64))))
		d := smt.BVSub(x, rec.Addr)
		// byte d of rec.Val
		var b *smt.Term
		if k, ok := d.Uint64(); ok && k < uint64(rec.Len) {
			b = smt.Extract(rec.Val, int(8*k)+7, int(8*k))
		} else {
			b = smt.Extract(rec.Val, 7, 0)
			for k := 1; k < rec.Len; k++ {
				b = smt.Ite(smt.Eq(d, smt.BVU(uint64(k), 64)), smt.Extract(rec.Val, 8*k+7, 8*k), b)
			}
		}
		r = smt.Ite(in, b, r)
	}
	return r
}

func memHistories(kind, tier string) []memHist {
	st := func(p ...[2]int) [][2]int { return p }
	var hs []memHist
	switch kind {
	case "sparse":
		hs = []memHist{
			{}, {Stores: st([2]int{4, 4})}, {Stores: st([2]int{4, 8})}, {Stores: st([2]int{8, 2})},
			{Stores: st([2]int{4, 4}, [2]int{2, 2})}, {Stores: st([2]int{2, 1}, [2]int{2, 4})},
			{Stores: st([2]int{40, 8}, [2]int{1, 1}), StoreAt: []uint64{0x1000}, Wide: true},
		}
		if tier == "thorough" {
			hs = append(hs, memHist{Stores: st([2]int{1, 1})}, memHist{Stores: st([2]int{2, 2}, [2]int{4, 4})}, memHist{Stores: st([2]int{8, 8}, [2]int{1, 1})},
				memHist{Stores: st([2]int{1, 1}, [2]int{1, 1})})
			hs = append(hs, memHist{Stores: st([2]int{4, 4}, [2]int{2, 2}, [2]int{2, 2})}, memHist{Stores: st([2]int{2, 2}, [2]int{2, 2}, [2]int{4, 4})},
				memHist{Stores: st([2]int{8, 8}, [2]int{1, 1}, [2]int{2, 2})}, memHist{Stores: st([2]int{33, 1})}, memHist{Stores: st([2]int{40, 1}, [2]int{1, 1})})
		}
	case "bytes":
		hs = []memHist{
			{}, {Blocks: []int{4}}, {Blocks: []int{2, 3}}, {Stores: st([2]int{2, 2})}, {Blocks: []int{4}, Stores: st([2]int{2, 2})},
			{Blocks: []int{2}, Stores: st([2]int{4, 4})}, {Blocks: []int{1, 1}, Fixed: []uint64{0x1000, 0x1002}, Stores: st([2]int{2, 2}), Heavy: true}, {Stores: st([2]int{2, 2}, [2]int{2, 2}), Heavy: true},
			// a constant narrower than the write (zero-extension), and wider (truncation)
			{Stores: st([2]int{4, 2})}, {Blocks: []int{2}, Stores: st([2]int{2, 1})}, {Stores: st([2]int{1, 2})},
			// adjacent initial blocks are merged by NewBytes (the merged block has spare capacity)
			{Blocks: []int{2, 2}, Fixed: []uint64{0x1000, 0x1002}, Stores: st([2]int{4, 4}), Heavy: true},
			{Blocks: []int{1, 1, 1}, Fixed: []uint64{0x1000, 0x1001, 0x1003}, Stores: st([2]int{2, 2}), Heavy: true},
		}
		if tier == "thorough" {
			hs = append(hs, memHist{Blocks: []int{1, 1}, Stores: st([2]int{1, 1})}, memHist{Stores: st([2]int{1, 1}, [2]int{1, 1}, [2]int{2, 2})}, memHist{Blocks: []int{2, 2}, Stores: st([2]int{2, 2})}, memHist{Blocks: []int{3}, Stores: st([2]int{1, 1}, [2]int{2, 4})},
				memHist{Blocks: []int{2, 2}, Stores: st([2]int{4, 4})}, memHist{Blocks: []int{1, 1}, Stores: st([2]int{1, 1}, [2]int{1, 1})},
				memHist{Stores: st([2]int{1, 1}, [2]int{1, 1}, [2]int{1, 1})}, memHist{Blocks: []int{2, 2, 2}, Stores: st([2]int{2, 2})})
		}
	case "overlay":
		hs = []memHist{
			{Blocks: []int{4}}, {Blocks: []int{2, 2}}, {Blocks: []int{4}, Stores: st([2]int{2, 2})}, {Blocks: []int{2}, Stores: st([2]int{4, 4})},
			{Blocks: []int{4}, Fixed: []uint64{0x1000}, Stores: st([2]int{1, 1}, [2]int{1, 1}), Heavy: true}, {Stores: st([2]int{2, 2})},
			{Blocks: []int{2, 2}, Fixed: []uint64{0x1000, 0x1003}, Stores: st([2]int{2, 4}), Heavy: true},
			{Blocks: []int{40}, Fixed: []uint64{0x1000}, Stores: st([2]int{1, 1}), Wide: true},
			{Blocks: []int{2}, Stores: st([2]int{4, 2})},
		}
		if tier == "thorough" {
			hs = append(hs, memHist{Blocks: []int{4}, Stores: st([2]int{1, 1}, [2]int{1, 1})}, memHist{Blocks: []int{2, 2}, Stores: st([2]int{2, 4})},
				memHist{Blocks: []int{2, 2}, Stores: st([2]int{1, 1}, [2]int{1, 1})}, memHist{Blocks: []int{8}, Stores: st([2]int{2, 2}, [2]int{2, 2})},
				memHist{Blocks: []int{1, 1, 1}, Stores: st([2]int{1, 1})})
		}
	case "layouts":
		hs = []memHist{{}, {Blocks: []int{1}}, {Blocks: []int{2, 3}}, {Blocks: []int{1, 1, 1}}, {Blocks: []int{2, 1, 2}}}
		if tier == "thorough" {
			hs = append(hs, memHist{Blocks: []int{1, 2, 1, 2}}, memHist{Blocks: []int{3, 3, 3}})
		}
	}
	return hs
}

func (c *Ctx) memFn(name string) *ssa.Function { return c.Func(name) }

func (c *Ctx) installMemBuiltins(ev *spec.Eval, hists []memHist) {
	B := ev.Builtins
	p := ev.P
	hs := &histState{Frozen: map[int]sx.Val{}}
	p.Ghost["hist"] = hs
	memPk := c.P.SSA["mltwist/internal/state/memory"]
	elfPk := c.P.SSA["mltwist/internal/elf"]
	memoryT := memPk.Type("Memory").Type()
	byteBlockT := memPk.Type("ByteBlock").Type()
	blockT := elfPk.Type("Block").Type()
	call := func(fn *ssa.Function, args ...sx.Val) sx.Val {
		saved := p.NoSafety
		p.NoSafety = true
		defer func() { p.NoSafety = saved }()
		return p.Call(fn, args, nil, nil)
	}
	getHist := func(ev *spec.Eval, a []ast.Expr) memHist {
		k := constArg(ev, a[0], "history index")
		if k < 0 || int(k) >= len(hists) {
			panic(spec.EvalError{Msg: "history index out of range"})
		}
		return hists[k]
	}
	freeze := func(from int) {
		for id := from + 1; id <= p.Next; id++ {
			if v, ok := p.Heap[id]; ok {
				hs.Frozen[id] = v
			}
		}
	}
	// the list of blocks (elf.Block values as memory.ByteBlock)
	mkBlocks := func(h memHist) sx.Val {
		var els []sx.Val
		for i, n := range h.Blocks {
			begin := smt.Var(fmt.Sprintf("blk%d.begin", i), smt.BV(64))
			if h.Fixed != nil {
				begin = smt.BVU(h.Fixed[i], 64)
			}
			p.Assume(nowrapTerm(begin, n))
			bs := make([]sx.Val, n)
			var val *smt.Term
			for k := range bs {
				b := smt.Var(fmt.Sprintf("blk%d.b%d", i, k), smt.BV(8))
				bs[k] = b
				if val == nil {
					val = b
				} else {
					val = smt.Concat(b, val)
				}
			}
			var sl sx.Val = p.NewSlice(types.Typ[types.Uint8], bs)
			els = append(els, sx.Iface{T: blockT, V: &sx.Struct{F: []sx.Val{begin, sl}}})
			hs.BlockAddrs = append(hs.BlockAddrs, begin)
			hs.BlockLens = append(hs.BlockLens, n)
			hs.Recs = append(hs.Recs, histRec{Addr: begin, Len: n, Val: val})
		}
		return p.NewSlice(byteBlockT, els)
	}
	disjoint := func() *smt.Term {
		c := smt.True
		for i := range hs.BlockAddrs {
			for j := i + 1; j < len(hs.BlockAddrs); j++ {
				ei := smt.BVAdd(hs.BlockAddrs[i], smt.BVU(uint64(hs.BlockLens[i]), 64))
				ej := smt.BVAdd(hs.BlockAddrs[j], smt.BVU(uint64(hs.BlockLens[j]), 64))
				if hs.BlockLens[i] == 0 || hs.BlockLens[j] == 0 {
					continue
				}
				c = smt.And(c, smt.Or(smt.BVUle(ei, hs.BlockAddrs[j]), smt.BVUle(ej, hs.BlockAddrs[i])))
			}
		}
		return c
	}
	var curHist memHist
	store := func(fn *ssa.Function, recv sx.Val, j int, w, ew int, constant bool) {
		addr := smt.Var(fmt.Sprintf("st%d.addr", j), smt.BV(64))
		if j < len(curHist.StoreAt) && curHist.StoreAt[j] != 0 {
			addr = smt.BVU(curHist.StoreAt[j], 64)
		}
		p.Assume(nowrapTerm(addr, w))
		v := smt.Var(fmt.Sprintf("st%d.val", j), smt.BV(8*ew))
		var ex sx.Val
		if constant {
			bs := make([]*smt.Term, ew)
			for k := range bs {
				bs[k] = smt.Extract(v, 8*k+7, 8*k)
			}
			ex = c.IR.MkConst(p, bs)
			// the constant handed to the memory must never change
			cs := ex.(sx.Iface).V.(*sx.Struct).F[0].(sx.Slice)
			hs.Frozen[cs.Obj] = p.Heap[cs.Obj]
		} else {
			name := fmt.Sprintf("$st%d", j)
			p.Ghost["leaf:"+name] = v
			ex = c.IR.MkRegLoad(name, ew)
		}
		// Store is under contract too: its panics and index errors are
		// obligations of the unit, not assumptions of the set-up
		p.Call(fn, []sx.Val{recv, addr, ex, smt.BVU(uint64(w), 8)}, nil, nil)
		hs.Recs = append(hs.Recs, histRec{Addr: addr, Len: w, Val: smt.Resize(v, 8*w)})
	}
	B["sparse_hist"] = func(ev *spec.Eval, a []ast.Expr) spec.TV {
		h := getHist(ev, a)
		curHist = h
		m := call(c.memFn("state/memory.NewSparse"))
		st := c.memFn("(*state/memory.Sparse).Store")
		for j, s := range h.Stores {
			store(st, m, j, s[0], s[1], false)
		}
		return spec.TV{V: m, T: types.NewPointer(memPk.Type("Sparse").Type())}
	}
	newBytes := func(h memHist) sx.Val {
		mark := p.Next
		blocks := mkBlocks(h)
		p.Assume(disjoint())
		r := call(c.memFn("state/memory.NewBytes"), blocks).(sx.Tuple)
		if e := r[1].(sx.Iface); e.T != nil {
			// NewBytes refused disjoint blocks: its own contract reports
			// that; this history cannot be built
			p.Stop("infeasible")
		}
		// the caller's block slices must stay as they are
		for id := mark + 1; id <= p.Next; id++ {
			_ = id
		}
		for _, e := range p.SliceElems(blocks.(sx.Slice)) {
			bs := e.(sx.Iface).V.(*sx.Struct).F[1].(sx.Slice)
			if bs.Obj != 0 {
				hs.Frozen[bs.Obj] = p.Heap[bs.Obj]
			}
		}
		return r[0]
	}
	B["bytes_hist"] = func(ev *spec.Eval, a []ast.Expr) spec.TV {
		h := getHist(ev, a)
		curHist = h
		b := newBytes(h)
		st := c.memFn("(*state/memory.Bytes).Store")
		for j, s := range h.Stores {
			store(st, b, j, s[0], s[1], true)
		}
		return spec.TV{V: b, T: types.NewPointer(memPk.Type("Bytes").Type())}
	}
	B["overlay_hist"] = func(ev *spec.Eval, a []ast.Expr) spec.TV {
		h := getHist(ev, a)
		curHist = h
		mark := p.Next
		base := newBytes(h)
		freeze(mark) // everything the base consists of
		sp := call(c.memFn("state/memory.NewSparse"))
		bytesPT := types.NewPointer(memPk.Type("Bytes").Type())
		sparsePT := types.NewPointer(memPk.Type("Sparse").Type())
		o := call(c.memFn("state/memory.NewOverlay"), sx.Iface{T: bytesPT, V: base}, sx.Iface{T: sparsePT, V: sp})
		st := c.memFn("(*state/memory.Overlay).Store")
		for j, s := range h.Stores {
			store(st, o, j, s[0], s[1], false)
		}
		_ = memoryT
		return spec.TV{V: o, T: types.NewPointer(memPk.Type("Overlay").Type())}
	}
	B["blocklist"] = func(ev *spec.Eval, a []ast.Expr) spec.TV {
		h := getHist(ev, a)
		return spec.TV{V: mkBlocks(h), T: types.NewSlice(byteBlockT)}
	}
	B["blocks_overlap"] = func(ev *spec.Eval, a []ast.Expr) spec.TV {
		return spec.TV{V: smt.Not(disjoint())}
	}
	// bytes_fresh(b): no block of b shares storage with the caller's blocks
	B["bytes_fresh"] = func(ev *spec.Eval, a []ast.Expr) spec.TV {
		b := ev.Eval(a[0])
		blocks := ev.Field(b, "blocks").V.(sx.Slice)
		entry, _ := p.Ghost["entryNext"].(int)
		ok := true
		if n, _ := blocks.Len.Uint64(); n > 0 {
			for _, e := range p.SliceElems(blocks) {
				bs := e.(*sx.Struct).F[1].(sx.Slice)
				if bs.Obj != 0 && bs.Obj <= entry {
					ok = false
				}
			}
		}
		return spec.TV{V: smt.BoolC(ok)}
	}
	B["nowrap"] = func(ev *spec.Eval, a []ast.Expr) spec.TV {
		return spec.TV{V: nowrapTerm(ev.Term(ev.Eval(a[0])), int(constArg(ev, a[1], "width")))}
	}
	B["hist_has"] = func(ev *spec.Eval, a []ast.Expr) spec.TV {
		return spec.TV{V: hs.has(ev.Term(ev.Eval(a[0])))}
	}
	B["hist_val"] = func(ev *spec.Eval, a []ast.Expr) spec.TV {
		addr := ev.Term(ev.Eval(a[0]))
		w := int(constArg(ev, a[1], "width"))
		var r *smt.Term
		for i := 0; i < w; i++ {
			b := hs.byteAt(smt.BVAdd(addr, smt.BVU(uint64(i), 64)))
			if r == nil {
				r = b
			} else {
				r = smt.Concat(b, r)
			}
		}
		return raw(r)
	}
	B["hist_inputs_unchanged"] = func(ev *spec.Eval, a []ast.Expr) spec.TV {
		for id, v := range hs.Frozen {
			if now, ok := p.Heap[id]; !ok || !sameHeapVal(now, v) {
				p.Ghost["hist.changed"] = id
				return spec.TV{V: smt.False}
			}
		}
		return spec.TV{V: smt.True}
	}
}

// sameHeapVal: an object is unchanged if it is the identical immutable value,
// or an array with identical elements.
func sameHeapVal(a, b sx.Val) bool { return sx.SameVal(a, b) }

func (c *Ctx) memUnits(name string, kind string, set string) []*vc.Unit {
	hists := memHistories(kind, c.Tier)
	var idx []int64
	for i := range hists {
		idx = append(idx, int64(i))
	}
	c.Sets[set] = idx
	return c.ContractUnits(name, func(us *UnitSpec) {
		h := hists[us.Enum["h"]]
		us.Bounded = "write histories of the corpus (at most 3 writes, blocks and writes of small concrete widths; all addresses, block contents and written values symbolic)"
		us.InstanceName = fmt.Sprintf("h=%s", h)
		if w, ok := us.Enum["w"]; ok {
			us.InstanceName += fmt.Sprintf(" w=%d", w)
			if h.Heavy && c.Tier != "thorough" && w != c.Sets["LOADW"][0] {
				us.Skip = true
				return
			}
			if h.Wide != (w == wideLoad) {
				us.Skip = true
				return
			}
		}
		us.MaxPaths = 300000
		op := name[strings.LastIndex(name, ".")+1:]
		us.Replay = c.memReplay(kind, op, h, us.Enum["w"])
		us.CallHook = c.valueHook
		us.Inputs = func(p *sx.Path, ev *spec.Eval, fn *ssa.Function) map[string]sx.Val {
			c.installMemBuiltins(ev, hists)
			env := c.leafEnv(p)
			env.BigLimit = 0
			p.Ghost["env"] = env
			return nil
		}
	})
}

func memProp(id, claim string, names [][3]string) *Prop {
	return &Prop{
		ID:        id,
		Level:     "other",
		Technique: "contract-based deductive verification of the real memory implementation against its abstract byte view; currently bounded: symbolic execution of write histories with all addresses and values symbolic",
		MinObls:   100,
		Claim:     claim,
		Note:      "bounded stand-in: the receiver is built by the real constructor and the real Store calls of every history of a corpus (0..2 writes in quick, up to 3 in thorough; write widths and expression widths below/equal/above each other; initial blocks for the byte memory), with every address, block content and written value symbolic; Load/Missing/Blocks are then executed symbolically and compared with the abstract byte view for all read addresses. Within a history the proof is complete over addresses (all overlap patterns) and values.",
		Assumptions: []string{
			"bounded: histories of the corpus (number and widths of writes and blocks are concrete); ranges wrapping around 2^64 are excluded",
			"the interval tree of github.com/zyedidia/generic is executed (its real code is interpreted), not assumed",
			"interval.Map operations are executed as they are (their own contracts are property C17)",
			"sort.Slice is modelled by an insertion sort through the real less closure; sort.Search is the real code, interpreted",
		},
		Build: func(c *Ctx) []*vc.Unit {
			c.Sets["LOADW"] = []int64{1, 4, wideLoad}
			if c.Tier == "thorough" {
				c.Sets["LOADW"] = []int64{1, 2, 3, 4, 8, wideLoad}
			}
			c.Sets["SIZES"] = []int64{0, 1, 2}
			var units []*vc.Unit
			for _, n := range names {
				units = append(units, c.memUnits(n[0], n[1], n[2])...)
			}
			return units
		},
	}
}

func init() {
	register(memProp("C14", "The sparse memory's Load, Missing and Blocks are checked against the abstract byte view (most recent write wins, values adapted to their write width, little-endian) after every write history of a corpus, for all addresses and values: bounded in the number of writes, complete over overlap patterns and values.",
		[][3]string{{"(*state/memory.Sparse).Load", "sparse", "SPARSEHIST"}, {"(*state/memory.Sparse).Missing", "sparse", "SPARSEHIST"}, {"(*state/memory.Sparse).Blocks", "sparse", "SPARSEHIST"}}))
	register(memProp("C15", "The byte memory's constructor (error exactly on overlapping blocks, own copy of the bytes) and its Load, Missing and Blocks are checked against the abstract byte view after every history of initial blocks and constant writes of a corpus, and no constant or slice handed to it is ever written: bounded in the number of blocks and writes, complete over addresses and values.",
		[][3]string{{"state/memory.NewBytes", "layouts", "BLOCKLAYOUTS"}, {"(*state/memory.Bytes).Load", "bytes", "BYTESHIST"}, {"(*state/memory.Bytes).Missing", "bytes", "BYTESHIST"}, {"(*state/memory.Bytes).Blocks", "bytes", "BYTESHIST"}}))
	register(memProp("C16", "The layered memory (the tool's configuration: byte memory under a sparse layer) is checked against the abstract byte view (upper layer wins, else base) after every history of base blocks and writes of a corpus; the base object is never written: bounded in the number of blocks and writes, complete over addresses and values.",
		[][3]string{{"(*state/memory.Overlay).Load", "overlay", "OVERLAYHIST"}, {"(*state/memory.Overlay).Missing", "overlay", "OVERLAYHIST"}, {"(*state/memory.Overlay).Blocks", "overlay", "OVERLAYHIST"}}))
}
