package props

import (
	"fmt"
	"go/ast"
	"go/types"
	"math/rand"

	"gocv/smt"
	"gocv/spec"
	"gocv/sx"
	"gocv/vc"

	"golang.org/x/tools/go/ssa"
)

// C18: register state. A history is a sequence of register writes
// (key, value tree, write width); the value trees have concrete shape and
// symbolic leaves.

type regWrite struct{ Key, Tree, W int }
type regHist []regWrite

var regKeys = []string{"x1", "x2", "x3"} // x3 is never written

func regValueTrees() []*tdesc {
	return []*tdesc{
		tConst(1), tConst(4), tReg("r1", 2), tReg("r1", 8), tGadget(tReg("r1", 4), 2),
		tBin(1, tReg("r1", 2), tConst(1), 4), tLess(tReg("r1", 1), tConst(1), tConst(2), tReg("r2", 2), 2), tMem(tConst(8), 4),
	}
}

func (h regHist) String() string {
	s := ""
	for _, w := range h {
		s += fmt.Sprintf("[%s:=t%d/w%d]", regKeys[w.Key], w.Tree, w.W)
	}
	if s == "" {
		return "[]"
	}
	return s
}

func regHistories(tier string, seed int64) []regHist {
	ws := []int{1, 2, 4, 8}
	nt := len(regValueTrees())
	hs := []regHist{{}}
	for t := 0; t < nt; t++ {
		for _, w := range ws {
			hs = append(hs, regHist{{0, t, w}})
		}
	}
	n := 24
	if tier == "thorough" {
		n = 400
	}
	rng := rand.New(rand.NewSource(seed*31 + 5))
	for i := 0; i < n; i++ {
		var h regHist
		for j := 0; j < 2+rng.Intn(2); j++ {
			h = append(h, regWrite{rng.Intn(2), rng.Intn(nt), ws[rng.Intn(4)]})
		}
		hs = append(hs, h)
	}
	return hs
}

type regState struct {
	Last map[int]*smt.Term // key index -> value as written (adapted to the write width)
}

func (c *Ctx) installRegBuiltins(ev *spec.Eval, hists []regHist) {
	B := ev.Builtins
	p := ev.P
	trees := regValueTrees()
	rs := &regState{Last: map[int]*smt.Term{}}
	stPk := c.P.SSA["mltwist/internal/state"]
	exprPk := c.P.SSA["mltwist/pkg/expr"]
	keyT := exprPk.Type("Key").Type()
	effectT := exprPk.Type("Effect").Type()
	getHist := func(ev *spec.Eval, a []ast.Expr) regHist {
		k := constArg(ev, a[0], "history index")
		if k < 0 || int(k) >= len(hists) {
			panic(spec.EvalError{Msg: "history index out of range"})
		}
		return hists[k]
	}
	w8 := func(w int) sx.Val { return smt.BVU(uint64(w), 8) }
	record := func(key int, tree sx.Val, w int) {
		rs.Last[key] = smt.Resize(c.den(p).Expr(tree), 8*w)
	}
	B["regs_hist"] = func(ev *spec.Eval, a []ast.Expr) spec.TV {
		h := getHist(ev, a)
		m := p.Call(c.Func("state.NewRegMap"), nil, nil, nil)
		st := c.Func("(*state.RegMap).Store")
		for j, wr := range h {
			tr := c.buildTree(p, trees[wr.Tree], fmt.Sprintf("h%d", j))
			p.Call(st, []sx.Val{m, sx.Str{S: regKeys[wr.Key]}, tr, w8(wr.W)}, nil, nil)
			record(wr.Key, tr, wr.W)
		}
		return spec.TV{V: m, T: types.NewPointer(stPk.Type("RegMap").Type())}
	}
	// state_hist(h): state.New() and the register writes of h, each applied
	// through the real State.Apply
	B["state_hist"] = func(ev *spec.Eval, a []ast.Expr) spec.TV {
		h := getHist(ev, a)
		s := p.Call(c.Func("state.New"), nil, nil, nil)
		ap := c.Func("(*state.State).Apply")
		for j, wr := range h {
			tr := c.buildTree(p, trees[wr.Tree], fmt.Sprintf("h%d", j))
			ef := sx.Iface{T: c.IR.RegStore, V: &sx.Struct{F: []sx.Val{tr, sx.Str{S: regKeys[wr.Key]}, w8(wr.W)}}}
			r := p.Call(ap, []sx.Val{s, ef}, nil, nil)
			p.Assert("(*state.State).Apply/history/accepts-register-writes", "post", r.(*smt.Term), "", "Apply refused a register write")
			record(wr.Key, tr, wr.W)
		}
		p.Ghost["state"] = s
		return spec.TV{V: s, T: types.NewPointer(stPk.Type("State").Type())}
	}
	B["regkey"] = func(ev *spec.Eval, a []ast.Expr) spec.TV {
		return spec.TV{V: sx.Str{S: regKeys[constArg(ev, a[0], "key index")]}, T: keyT}
	}
	B["reg_written"] = func(ev *spec.Eval, a []ast.Expr) spec.TV {
		_, ok := rs.Last[int(constArg(ev, a[0], "key index"))]
		return spec.TV{V: smt.BoolC(ok)}
	}
	B["reg_last"] = func(ev *spec.Eval, a []ast.Expr) spec.TV {
		t, ok := rs.Last[int(constArg(ev, a[0], "key index"))]
		if !ok {
			return raw(smt.BVU(0, 8))
		}
		return raw(t)
	}
	// effect_case(e): the effect handed to Apply
	//  0 RegStore(tree 5, x2, 2)            1 MemStore(tree 2, m, const8, 2)
	//  2 MemStore(tree 1, m, const8+const8, 4)   3 MemStore(.., addr = r1:8)
	//  4 MemStore(.., addr = r1:8 + const8)  5 MemStore(.., addr = const1 < const1 ? const8 : r2:8)
	//  6 MemStore(tree 0, m, const2 (a short constant address), 1)
	B["effect_case"] = func(ev *spec.Eval, a []ast.Expr) spec.TV {
		e := int(constArg(ev, a[0], "effect case"))
		var ef sx.Val
		mem := func(val, addr *tdesc, w int) sx.Val {
			v := c.buildTree(p, val, "ev")
			ad := c.buildTree(p, addr, "ea")
			p.Ghost["ef.addr"] = ad
			p.Ghost["ef.val"] = v
			p.Ghost["ef.w"] = w
			return sx.Iface{T: c.IR.MemStore, V: &sx.Struct{F: []sx.Val{v, sx.Str{S: "m"}, ad, w8(w)}}}
		}
		switch e {
		case 0:
			v := c.buildTree(p, trees[5], "ev")
			p.Ghost["ef.val"] = v
			p.Ghost["ef.w"] = 2
			p.Ghost["ef.reg"] = 1
			ef = sx.Iface{T: c.IR.RegStore, V: &sx.Struct{F: []sx.Val{v, sx.Str{S: regKeys[1]}, w8(2)}}}
		case 1:
			ef = mem(trees[2], tConst(8), 2)
		case 2:
			ef = mem(trees[1], tBin(1, tConst(8), tConst(8), 8), 4)
		case 3:
			ef = mem(trees[0], tReg("r1", 8), 1)
		case 4:
			ef = mem(trees[0], tBin(1, tReg("r1", 8), tConst(8), 8), 1)
		case 5:
			ef = mem(trees[0], tLess(tConst(1), tConst(1), tConst(8), tReg("r2", 8), 8), 1)
		case 6:
			ef = mem(trees[0], tConst(2), 1)
		default:
			panic(spec.EvalError{Msg: "effect case out of range"})
		}
		return spec.TV{V: ef, T: effectT}
	}
	noSafety := func(f func() sx.Val) sx.Val {
		saved := p.NoSafety
		p.NoSafety = true
		defer func() { p.NoSafety = saved }()
		return f()
	}
	// effect_addr_const(): the address of the memory write folds to a
	// constant (true for a register write)
	B["effect_addr_const"] = func(ev *spec.Eval, a []ast.Expr) spec.TV {
		ad, ok := p.Ghost["ef.addr"]
		if !ok {
			return spec.TV{V: smt.True}
		}
		// the specification of "reduces to a constant" is constant folding
		// (property C09); its result decides
		r := noSafety(func() sx.Val { return p.Call(c.Func("exprtransform.ConstFold"), []sx.Val{ad}, nil, nil) })
		return spec.TV{V: smt.BoolC(c.node(r).Kind == "const")}
	}
	// effect_applied(): after an accepted effect the state reads back the
	// written value (through the real Load functions), and the other
	// registers are as before
	B["effect_applied"] = func(ev *spec.Eval, a []ast.Expr) spec.TV {
		s := p.Ghost["state"]
		sv := p.Load(s.(sx.Ptr), "state").(*sx.Struct)
		val := c.den(p).Expr(p.Ghost["ef.val"])
		w := p.Ghost["ef.w"].(int)
		want := smt.Resize(val, 8*w)
		cond := smt.True
		load := c.Func("(*state.RegMap).Load")
		regIs := func(k int, want *smt.Term, present bool) {
			r := noSafety(func() sx.Val {
				return p.Call(load, []sx.Val{sv.F[0], sx.Str{S: regKeys[k]}, w8(8)}, nil, nil)
			}).(sx.Tuple)
			ok := r[1].(*smt.Term)
			if !present {
				cond = smt.And(cond, smt.Not(ok))
				return
			}
			if ok.IsFalse() {
				cond = smt.False
				return
			}
			cond = smt.And(cond, ok, smt.Eq(c.den(p).Expr(r[0]), smt.Resize(want, 64)))
		}
		if k, isReg := p.Ghost["ef.reg"]; isReg {
			for i := range regKeys {
				if i == k.(int) {
					regIs(i, want, true)
				} else if t, ok := rs.Last[i]; ok {
					regIs(i, t, true)
				} else {
					regIs(i, nil, false)
				}
			}
			return spec.TV{V: cond}
		}
		for i := range regKeys {
			if t, ok := rs.Last[i]; ok {
				regIs(i, t, true)
			} else {
				regIs(i, nil, false)
			}
		}
		addr := c.den(p).Addr(p.Ghost["ef.addr"])
		mload := c.Func("(state/memory.MemMap).Load")
		r := noSafety(func() sx.Val {
			return p.Call(mload, []sx.Val{sv.F[1], sx.Str{S: "m"}, addr, w8(w)}, nil, nil)
		}).(sx.Tuple)
		ok := r[1].(*smt.Term)
		if ok.IsFalse() {
			return spec.TV{V: smt.False}
		}
		cond = smt.And(cond, ok, smt.Eq(c.den(p).Expr(r[0]), want))
		return spec.TV{V: cond}
	}
	B["effect_nowrap"] = func(ev *spec.Eval, a []ast.Expr) spec.TV {
		ad, ok := p.Ghost["ef.addr"]
		if !ok {
			return spec.TV{V: smt.True}
		}
		if c.node(ad).Kind == "reg" {
			return spec.TV{V: smt.True}
		}
		defer func() { recover() }()
		return spec.TV{V: nowrapTerm(c.den(p).Addr(ad), p.Ghost["ef.w"].(int))}
	}
}

func (c *Ctx) regUnits(name string) []*vc.Unit {
	hists := regHistories(c.Tier, c.Seed)
	var idx []int64
	for i := range hists {
		idx = append(idx, int64(i))
	}
	c.Sets["REGHIST"] = idx
	return c.ContractUnits(name, func(us *UnitSpec) {
		h := hists[us.Enum["h"]]
		us.Bounded = "register write histories of the corpus (every single write of 8 value shapes x 4 widths, plus seeded random histories of 2-3 writes); all leaf values symbolic"
		us.InstanceName = fmt.Sprintf("h=%s", h)
		for _, k := range []string{"kk", "w", "e"} {
			if v, ok := us.Enum[k]; ok {
				us.InstanceName += fmt.Sprintf(" %s=%d", k, v)
			}
		}
		if e, ok := us.Enum["e"]; ok && len(h) > 1 && e > 1 && c.Tier != "thorough" {
			// memory-write cases do not depend on the register history
			us.Skip = true
			return
		}
		us.CallHook = c.valueHook
		us.Inputs = func(p *sx.Path, ev *spec.Eval, fn *ssa.Function) map[string]sx.Val {
			c.installRegBuiltins(ev, hists)
			c.installTreeBuiltins(ev, nil)
			env := c.leafEnv(p)
			env.BigLimit = 0
			p.Ghost["env"] = env
			return nil
		}
	})
}

func init() {
	register(&Prop{
		ID:        "C18",
		Level:     "other",
		Technique: "contract-based deductive verification of the real register map and State.Apply against the abstract last-write view; currently bounded: symbolic execution of write histories with all leaf values symbolic",
		MinObls:   300,
		Claim:     "RegMap.Load (absent iff never written; otherwise the last written value adapted to its write width, then to the read width) and State.Apply (a register write is stored; a memory write is performed iff its address folds to a constant, otherwise refused with every pre-existing heap object unchanged) are checked on the real code after every register-write history of a corpus, for all leaf values: bounded in the number and shapes of writes.",
		Note:      "bounded stand-in: histories of 0-3 register writes (keys x1, x2; 8 value-tree shapes; write widths 1, 2, 4, 8) built by the real NewRegMap/Store (or state.New/Apply) calls; reads at widths 1, 2, 4, 8 of a written, an overwritten and a never-written key. 'Reduces to a constant' is decided by the real ConstFold (property C09). The frame condition of a refused write compares every heap object that existed at entry.",
		Assumptions: []string{
			"bounded: register write histories of the corpus",
			"IR semantics as documented in pkg/expr (DESIGN §4.1)",
			"calls of expreval.* are replaced by their contracts (property C10); SetWidth and ConstFold are executed as they are (their own contracts are C12 and C09)",
			"Go maps: modelled as association lists with symbolic key comparison (engine)",
		},
		Build: func(c *Ctx) []*vc.Unit {
			c.Sets["REGKEYS"] = []int64{0, 1, 2}
			c.Sets["REGW"] = []int64{1, 2, 4, 8}
			c.Sets["EFFECTS"] = []int64{0, 1, 2, 3, 4, 5, 6}
			u := c.regUnits("(*state.RegMap).Load")
			return append(u, c.regUnits("(*state.State).Apply")...)
		},
	})
}
