package sx

import (
	"fmt"
	"go/types"

	"gocv/smt"

	"golang.org/x/tools/go/ssa"
)

// Assumed contracts of math/big (DESIGN §4.3): a *big.Int holding a
// non-negative integer is modelled by a bit-vector term wide enough for its
// value (width grows with Mul, never overflows). Only the operations the
// repository uses are modelled; negative numbers are outside the model except
// through SetString/Sign/Neg in the console code (concrete values).

type bigVal struct {
	T *smt.Term // magnitude, any width >= 1
	// Neg: the number is negative (nil: non-negative). Only SetString and
	// Sign look at it: every other modelled operation is used by the
	// repository on non-negative numbers, or (Bytes) is defined on the
	// magnitude.
	Neg *smt.Term
}

func (p *Path) getBig(v Val) *smt.Term {
	ptr, ok := v.(Ptr)
	if !ok || ptr.Obj == 0 {
		panic(unsupported("nil *big.Int"))
	}
	switch c := p.Load(ptr, "big").(type) {
	case Opaque:
		if b, ok := c.V.(bigVal); ok {
			return b.T
		}
	case *Struct:
		return smt.BVU(0, 8) // the zero value
	}
	panic(unsupported("unmodelled big.Int contents"))
}

func (p *Path) setBig(v Val, t *smt.Term) Val {
	ptr := v.(Ptr)
	p.StoreTo(ptr, Opaque{Kind: "bigint", V: bigVal{T: t}}, "big")
	return v
}

func widen(a, b *smt.Term) (*smt.Term, *smt.Term) {
	w := a.S.W
	if b.S.W > w {
		w = b.S.W
	}
	return smt.Resize(a, w), smt.Resize(b, w)
}

// byteLen forks over the number of significant bytes of t and returns it.
func (p *Path) bigByteLen(t *smt.Term) int {
	n := (t.S.W + 7) / 8
	tt := smt.Resize(t, 8*n)
	for k := n; k >= 1; k-- {
		// top non-zero byte is byte k-1
		nz := smt.Not(smt.Eq(smt.Extract(tt, 8*k-1, 8*(k-1)), smt.BVU(0, 8)))
		if p.Decide(nz) {
			return k
		}
	}
	return 0
}

func init() {
	extraIntrinsics = append(extraIntrinsics, func(m *Machine) {
		I := m.Intr
		I["(*math/big.Int).SetBytes"] = func(p *Path, c *ssa.CallCommon, a []Val) Val {
			bs := p.SliceElems(a[1].(Slice))
			if len(bs) == 0 {
				return p.setBig(a[0], smt.BVU(0, 8))
			}
			var t *smt.Term // big-endian
			for _, b := range bs {
				if t == nil {
					t = term(b)
				} else {
					t = smt.Concat(t, term(b))
				}
			}
			return p.setBig(a[0], t)
		}
		I["(*math/big.Int).Mul"] = func(p *Path, c *ssa.CallCommon, a []Val) Val {
			x, y := p.getBig(a[1]), p.getBig(a[2])
			w := x.S.W + y.S.W
			return p.setBig(a[0], smt.BVMul(smt.Resize(x, w), smt.Resize(y, w)))
		}
		I["(*math/big.Int).Div"] = func(p *Path, c *ssa.CallCommon, a []Val) Val {
			x, y := widen(p.getBig(a[1]), p.getBig(a[2]))
			p.Assert("math/big.Int.Div/zero", "divzero", smt.Not(smt.Eq(y, smt.BVU(0, y.S.W))), "", "big.Int.Div: division by zero")
			return p.setBig(a[0], smt.BVUDiv(x, y))
		}
		I["(*math/big.Int).Cmp"] = func(p *Path, c *ssa.CallCommon, a []Val) Val {
			x, y := widen(p.getBig(a[0]), p.getBig(a[1]))
			return smt.Ite(smt.BVUlt(x, y), i64(-1), smt.Ite(smt.Eq(x, y), i64(0), i64(1)))
		}
		I["(*math/big.Int).IsUint64"] = func(p *Path, c *ssa.CallCommon, a []Val) Val {
			x := p.getBig(a[0])
			if x.S.W <= 64 {
				return smt.True
			}
			return smt.Eq(smt.Extract(x, x.S.W-1, 64), smt.BVU(0, x.S.W-64))
		}
		I["(*math/big.Int).Uint64"] = func(p *Path, c *ssa.CallCommon, a []Val) Val {
			return smt.Resize(p.getBig(a[0]), 64)
		}
		I["(*math/big.Int).Bytes"] = func(p *Path, c *ssa.CallCommon, a []Val) Val {
			x := p.getBig(a[0])
			k := p.bigByteLen(x)
			xx := smt.Resize(x, 8*((x.S.W+7)/8))
			els := make([]Val, k)
			for i := 0; i < k; i++ { // big-endian
				els[i] = smt.Extract(xx, 8*(k-i)-1, 8*(k-i-1))
			}
			return p.NewSlice(byteType, els)
		}
		I["(*math/big.Int).FillBytes"] = func(p *Path, c *ssa.CallCommon, a []Val) Val {
			x := p.getBig(a[0])
			buf := a[1].(Slice)
			n, ok := buf.Len.Uint64()
			if !ok {
				panic(unsupported("FillBytes into a buffer of symbolic length"))
			}
			fits := smt.True
			if x.S.W > int(8*n) {
				if n == 0 {
					fits = smt.Eq(x, smt.BVU(0, x.S.W))
				} else {
					fits = smt.Eq(smt.Extract(x, x.S.W-1, int(8*n)), smt.BVU(0, x.S.W-int(8*n)))
				}
			}
			p.Assert("math/big.Int.FillBytes/fits", "panic", fits, "", "big.Int.FillBytes: value does not fit the buffer")
			if n == 0 {
				return buf
			}
			xx := smt.Resize(x, int(8*n))
			arr := p.Heap[buf.Obj].(*Arr)
			off, _ := buf.Off.Uint64()
			e := append([]Val{}, arr.Elems...)
			for i := uint64(0); i < n; i++ {
				e[off+i] = smt.Extract(xx, int(8*(n-i))-1, int(8*(n-i-1)))
			}
			p.Heap[buf.Obj] = &Arr{Elems: e, ElemT: arr.ElemT}
			return buf
		}
	})
}

var _ = fmt.Sprintf

var byteType = types.Typ[types.Uint8]
