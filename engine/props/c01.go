package props

import (
	"fmt"
	"go/types"

	"gocv/smt"
	"gocv/spec"
	"gocv/sx"
	"gocv/vc"

	"golang.org/x/tools/go/ssa"
)

func (c *Ctx) rvInstructionValue(e rvEntry, addr, word *smt.Term) *sx.Struct {
	pk := c.P.SSA["mltwist/internal/riscv"]
	it := pk.Type("instruction").Type().Underlying().(*types.Struct)
	s := &sx.Struct{F: make([]sx.Val, it.NumFields())}
	s.F[structField(it, "addr")] = addr
	s.F[structField(it, "value")] = word
	s.F[structField(it, "instrType")] = e.Ptr
	return s
}

func init() {
	register(&Prop{
		ID:        "C01",
		Level:     "proof",
		Technique: "contract-based deductive verification: postcondition of every lifter closure against a RISC-V reference transformer, one QF_ABV validity per instruction over all words, addresses, registers and memory",
		MinObls:   600,
		Note:      "For every entry of the six instruction tables of internal/riscv (built by executing the real package initialiser), validEffects is executed symbolically for an arbitrary word matching the entry's opcode pattern, an arbitrary address and an arbitrary machine state. The effect list is applied by the IR semantics and the resulting registers, CSRs, memory and pc are compared with the reference transformer written from the ISA manual. Paths fork on rd/rs == x0; every path is covered.",
		Assumptions: []string{
			"IR semantics as documented in pkg/expr (DESIGN §4.1)",
			"the RISC-V reference rv/ref.go (hand-written from the unprivileged ISA manual) is the specification; SC always succeeds, fence/fence.i/ecall/ebreak change nothing",
			"fmt.Sprintf(\"x%d\") / (\"csr%d\") are injective and disjoint (register keys are compared structurally)",
			"RV32: memory accesses that wrap around 2^32 are excluded by precondition (rv_nowrap)",
			"calls of exprtools gadgets are replaced by the gadgets' contracts (pkg/expr/exprtools/contracts_verif.go, proved per width under property C11); the gadgets' preconditions are obligations here",
		},
		Build: func(c *Ctx) []*vc.Unit {
			useUninterpretedArith()
			name := "(riscv.instructionType).validEffects"
			ct := c.Contract(name)
			var units []*vc.Unit
			for _, e := range c.rvEntries() {
				e := e
				us := &UnitSpec{Ctx: c, Name: name, Contract: ct, Enum: map[string]int64{}}
				us.InstanceName = fmt.Sprintf("rv%d/%s/%s", e.XLen, e.Table, e.Name)
				us.CallHook = c.gadgetHook("")
				us.Inputs = func(p *sx.Path, ev *spec.Eval, fn *ssa.Function) map[string]sx.Val {
					c.installRvBuiltins(ev)
					st := newRvState(e.XLen, "")
					addr := smt.Var("addr", smt.BV(64))
					word := smt.Var("word", smt.BV(32))
					st.Word = word
					st.PC = smt.Resize(addr, e.XLen)
					p.Ghost["rv"] = st
					p.Ghost["env"] = st.env()
					return map[string]sx.Val{"o": e.Val, "i": c.rvInstructionValue(e, addr, word)}
				}
				units = append(units, us.Unit())
			}
			return units
		},
	})
}
