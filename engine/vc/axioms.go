package vc

import (
	"strings"

	"gocv/smt"
)

// arithAxioms returns ground instances of true facts about the uninterpreted
// multiplication/division symbols umulN/udivN occurring in t:
//   umul(a,0)=0, umul(0,b)=0, umul(a,1)=a, umul(1,b)=b,
//   udiv(a,1)=a, a <u b => udiv(a,b)=0, b != 0 => umul(udiv(a,b),b) <=u a (no overflow of the product),
//   b != 0 => a - umul(udiv(a,b), b) <u b.
// They hold for bvmul and bvudiv, so adding them as hypotheses is sound.
func arithAxioms(t *smt.Term) []*smt.Term {
	var out []*smt.Term
	seen := map[int]bool{}
	var walk func(t *smt.Term)
	walk = func(t *smt.Term) {
		if seen[t.ID] {
			return
		}
		seen[t.ID] = true
		for _, a := range t.Args {
			walk(a)
		}
		if t.Op != "app" || t.Bound || len(t.Args) != 2 {
			return
		}
		a, b := t.Args[0], t.Args[1]
		w := t.S.W
		zero, one := smt.BVU(0, w), smt.BVU(1, w)
		switch {
		case strings.HasPrefix(t.Name, "umul"):
			out = append(out,
				smt.Implies(smt.Eq(a, zero), smt.Eq(t, zero)),
				smt.Implies(smt.Eq(b, zero), smt.Eq(t, zero)),
				smt.Implies(smt.Eq(a, one), smt.Eq(t, b)),
				smt.Implies(smt.Eq(b, one), smt.Eq(t, a)),
				// commutativity, as a ground instance (the symbol is
				// uninterpreted for the solver)
				smt.Eq(t, smt.App(t.Name, t.S, b, a)))
		case strings.HasPrefix(t.Name, "udiv"):
			prod := smt.AppC("umul"+t.Name[4:], t.S, t, b)
			out = append(out,
				smt.Implies(smt.Eq(b, one), smt.Eq(t, a)),
				smt.Implies(smt.BVUlt(a, b), smt.Eq(t, zero)),
				smt.Implies(smt.Not(smt.Eq(b, zero)), smt.BVUle(prod, a)),
				smt.Implies(smt.Not(smt.Eq(b, zero)), smt.BVUlt(smt.BVSub(a, prod), b)))
		}
	}
	walk(t)
	return out
}

func orderPair(x, y *smt.Term) []*smt.Term {
	if x.ID > y.ID {
		return []*smt.Term{y, x}
	}
	return []*smt.Term{x, y}
}

// simplifyUnder rewrites cond using the literals of the path condition:
// an atom that the path condition asserts (or denies) is replaced by true
// (false) inside cond. The implication pc => cond is unchanged in meaning.
func simplifyUnder(pc []*smt.Term, cond *smt.Term) *smt.Term {
	m := map[int]*smt.Term{}
	var add func(l *smt.Term)
	add = func(l *smt.Term) {
		switch l.Op {
		case "and":
			for _, a := range l.Args {
				add(a)
			}
		case "not":
			if !l.Args[0].IsConst() {
				m[l.Args[0].ID] = smt.False
			}
		case "true", "false":
		default:
			m[l.ID] = smt.True
		}
	}
	for _, l := range pc {
		add(l)
	}
	if len(m) == 0 {
		return cond
	}
	return smt.Subst(cond, m)
}

// SolveHyps decides the satisfiability of a conjunction and returns the
// model value of want (used by the executor to concretise small integers).
func SolveHyps(hyps []*smt.Term, want *smt.Term) (*smt.Term, bool, bool) {
	q := &smt.Query{Name: "feasible", Hyps: hyps, Values: []*smt.Term{want}}
	r := smt.Solve(q, 20)
	switch r.Status {
	case "unsat":
		return nil, false, true
	case "sat":
		if v, ok := r.Model[want.ID]; ok {
			return v, true, true
		}
		return nil, false, false
	}
	return nil, false, false
}

// Feasible decides whether the conjunction of hyps is satisfiable.
func Feasible(hyps []*smt.Term) (bool, bool) {
	q := &smt.Query{Name: "feasible", Hyps: hyps}
	r := smt.Solve(q, 10)
	switch r.Status {
	case "unsat":
		return false, true
	case "sat":
		return true, true
	}
	return false, false
}
