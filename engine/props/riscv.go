package props

import (
	"fmt"
	"go/ast"
	"go/types"
	"math/big"
	"strings"

	"gocv/ir"
	"gocv/rv"
	"gocv/smt"
	"gocv/spec"
	"gocv/sx"

	"golang.org/x/tools/go/ssa"
)

// rvEntry is one instructionType of a table of package riscv.
type rvEntry struct {
	Table   string
	XLen    int
	Ext     string
	Name    string
	Ptr     sx.Ptr
	Val     *sx.Struct
	Mask    uint32
	Match   uint32
	PatLen  int
	Type    *types.Struct
	NamedT  types.Type
}

func structField(st *types.Struct, name string) int {
	for i := 0; i < st.NumFields(); i++ {
		if st.Field(i).Name() == name {
			return i
		}
	}
	panic("no field " + name)
}

var rvTables = []struct {
	Name string
	XLen int
	Ext  string
}{
	{"integer32", 32, "I"}, {"mul32", 32, "M"}, {"atomic32", 32, "A"},
	{"integer64", 64, "I"}, {"mul64", 64, "M"}, {"atomic64", 64, "A"},
}

// rvEntries reads the instruction tables built by the package initialiser
// of internal/riscv (executed concretely by the interpreter on every run).
func (c *Ctx) rvEntries() []rvEntry {
	pk := c.P.SSA["mltwist/internal/riscv"]
	if pk == nil {
		panic("package internal/riscv not loaded")
	}
	named := pk.Type("instructionType").Type()
	st := named.Underlying().(*types.Struct)
	fName, fOp := structField(st, "name"), structField(st, "opcode")
	heap := c.P.M.BaseHeap
	var out []rvEntry
	for _, tb := range rvTables {
		g, ok := pk.Members[tb.Name].(*ssa.Global)
		if !ok {
			panic("riscv table " + tb.Name + " not found (renamed?)")
		}
		sl, ok := heap[c.P.M.Globals[g]].(sx.Slice)
		if !ok || sl.Obj == 0 {
			panic("riscv table " + tb.Name + " is empty")
		}
		arr := heap[sl.Obj].(*sx.Arr)
		n, _ := sl.Len.Uint64()
		for k := uint64(0); k < n; k++ {
			ptr := arr.Elems[k].(sx.Ptr)
			v := heap[ptr.Obj].(*sx.Struct)
			e := rvEntry{Table: tb.Name, XLen: tb.XLen, Ext: tb.Ext, Ptr: ptr, Val: v, Type: st, NamedT: named}
			e.Name = v.F[fName].(sx.Str).S
			op := v.F[fOp].(*sx.Struct)
			bs := concreteBytes(heap, op.F[0].(sx.Slice))
			ms := concreteBytes(heap, op.F[1].(sx.Slice))
			if len(bs) != len(ms) || len(bs) > 4 {
				panic(fmt.Sprintf("riscv %s[%s]: opcode pattern of %d/%d bytes", tb.Name, e.Name, len(bs), len(ms)))
			}
			e.PatLen = len(bs)
			for i := range bs {
				e.Mask |= uint32(ms[i]) << (8 * i)
				e.Match |= uint32(bs[i]&ms[i]) << (8 * i)
			}
			out = append(out, e)
		}
	}
	return out
}

func concreteBytes(heap map[int]sx.Val, s sx.Slice) []byte {
	n, _ := s.Len.Uint64()
	if n == 0 {
		return nil
	}
	off, _ := s.Off.Uint64()
	arr := heap[s.Obj].(*sx.Arr)
	out := make([]byte, n)
	for i := uint64(0); i < n; i++ {
		k, ok := sx.ConstInt(arr.Elems[off+i])
		if !ok {
			panic("non-constant byte in an opcode pattern")
		}
		out[i] = byte(k)
	}
	return out
}

// rvState is the symbolic pre-state shared by code side and reference side.
type rvState struct {
	XLen          int
	X, CSR, MEM   *smt.Term
	PC, Word      *smt.Term
	Problems      []string
	Side          []*smt.Term // conditions that must hold for the keys read to be well formed
	post          *rvPost
	ref           *rv.M
}

type rvPost struct {
	X, CSR, MEM, PC *smt.Term
	NoX0            *smt.Term
	OK              *smt.Term
}

func newRvState(xlen int, sfx string) *rvState {
	return &rvState{
		XLen: xlen,
		X:    smt.Var("X"+sfx, smt.Array(smt.BV(5), smt.BV(xlen))),
		CSR:  smt.Var("CSR"+sfx, smt.Array(smt.BV(12), smt.BV(xlen))),
		MEM:  smt.Var("MEM"+sfx, smt.Array(smt.BV(64), smt.BV(8))),
	}
}

const ipKey = "#r:w:ip"

// regClass classifies a register key: "x" (index term of 5 bits), "csr"
// (12 bits), "ip", or "" for anything else.
func regClass(key sx.Str) (string, *smt.Term) {
	if key.Concrete() {
		if key.S == ipKey {
			return "ip", nil
		}
		return "", nil
	}
	if len(key.Args) != 1 {
		return "", nil
	}
	a := key.Args[0]
	switch key.Fmt {
	case "x%d":
		if a.S.W < 5 {
			a = smt.ZeroExt(a, 5-a.S.W)
		}
		return "x", a
	case "csr%d":
		if a.S.W < 12 {
			a = smt.ZeroExt(a, 12-a.S.W)
		}
		return "csr", a
	}
	return "", nil
}

// env interprets register and memory leaves over the pre-state.
func (s *rvState) env() *ir.Env {
	return &ir.Env{
		BigLimit: 1,
		Reg: func(key sx.Str, w int) *smt.Term {
			cl, idx := regClass(key)
			switch cl {
			case "x":
				// the key must denote one of x1..x31: a register number
				// that does not fit 5 bits is a different (unknown) register
				if idx.S.W > 5 {
					s.Side = append(s.Side, smt.Eq(smt.Extract(idx, idx.S.W-1, 5), smt.BVU(0, idx.S.W-5)))
				}
				s.Side = append(s.Side, smt.Not(smt.Eq(smt.Extract(idx, 4, 0), smt.BVU(0, 5))))
				return smt.Resize(smt.Select(s.X, smt.Extract(idx, 4, 0)), 8*w)
			case "csr":
				return smt.Resize(smt.Select(s.CSR, smt.Extract(idx, 11, 0)), 8*w)
			case "ip":
				return smt.Resize(s.PC, 8*w)
			}
			s.Problems = append(s.Problems, "read of unknown register "+sx.Show(key))
			return smt.Var("unknownreg."+sx.Show(key), smt.BV(8*w))
		},
		Mem: func(key sx.Str, addr *smt.Term, w int) *smt.Term {
			if !key.Concrete() || key.S != "memory" {
				s.Problems = append(s.Problems, "read of unknown memory space "+sx.Show(key))
			}
			var r *smt.Term
			for i := 0; i < w; i++ {
				b := smt.Select(s.MEM, smt.BVAdd(addr, smt.BVU(uint64(i), 64)))
				if r == nil {
					r = b
				} else {
					r = smt.Concat(b, r)
				}
			}
			return r
		},
	}
}

// apply computes the post-state of a list of effects (all operands in the
// pre-state, stores in list order, IP store = jump, else fall through).
func (s *rvState) apply(effs []ir.Effect) *rvPost {
	xlen := s.XLen
	p := &rvPost{X: s.X, CSR: s.CSR, MEM: s.MEM, NoX0: smt.True, OK: smt.True}
	var pc *smt.Term
	for _, e := range effs {
		if e.IsMem {
			if !e.Key.Concrete() || e.Key.S != "memory" {
				s.Problems = append(s.Problems, "store to unknown memory space "+sx.Show(e.Key))
				continue
			}
			for i := 0; i < e.W; i++ {
				p.MEM = smt.Store(p.MEM, smt.BVAdd(e.Addr, smt.BVU(uint64(i), 64)), smt.Extract(e.Val, 8*i+7, 8*i))
			}
			continue
		}
		v := smt.Resize(e.Val, xlen) // the whole register becomes the value adapted to the store width
		cl, idx := regClass(e.Key)
		switch cl {
		case "x":
			n := smt.Extract(idx, 4, 0)
			if idx.S.W > 5 {
				p.OK = smt.And(p.OK, smt.Eq(smt.Extract(idx, idx.S.W-1, 5), smt.BVU(0, idx.S.W-5)))
			}
			p.NoX0 = smt.And(p.NoX0, smt.Not(smt.Eq(n, smt.BVU(0, 5))))
			p.X = smt.Store(p.X, n, v)
		case "csr":
			p.CSR = smt.Store(p.CSR, smt.Extract(idx, 11, 0), v)
		case "ip":
			pc = v
		default:
			s.Problems = append(s.Problems, "store to unknown register "+sx.Show(e.Key))
		}
	}
	if pc == nil {
		pc = smt.BVAdd(s.PC, smt.BVU(4, xlen))
	}
	p.PC = pc
	return p
}

func (c *Ctx) rvStateOf(p *sx.Path) *rvState {
	s, ok := p.Ghost["rv"].(*rvState)
	if !ok {
		panic(spec.EvalError{Msg: "RISC-V builtins used outside a RISC-V unit"})
	}
	return s
}

func strArg(ev *spec.Eval, a ast.Expr) string {
	v := ev.Eval(a)
	s, ok := v.V.(sx.Str)
	if !ok || !s.Concrete() {
		panic(spec.EvalError{Msg: "expected a concrete string"})
	}
	return s.S
}

func (c *Ctx) installRvBuiltins(ev *spec.Eval) {
	B := ev.Builtins
	p := ev.P
	// opcode_matches(o, word): word agrees with the opcode pattern of o
	B["opcode_matches"] = func(ev *spec.Eval, a []ast.Expr) spec.TV {
		o := ev.Eval(a[0])
		word := ev.Term(ev.Eval(a[1]))
		op := ev.Field(o, "opcode")
		bs := concreteBytes(p.Heap, ev.Field(op, "Bytes").V.(sx.Slice))
		ms := concreteBytes(p.Heap, ev.Field(op, "Mask").V.(sx.Slice))
		var mask, match uint32
		for i := range bs {
			mask |= uint32(ms[i]) << (8 * i)
			match |= uint32(bs[i]&ms[i]) << (8 * i)
		}
		return spec.TV{V: smt.Eq(smt.BVAnd(word, smt.BVU(uint64(mask), 32)), smt.BVU(uint64(match), 32))}
	}
	post := func(ev *spec.Eval, res ast.Expr) *rvPost {
		s := c.rvStateOf(p)
		if s.post == nil {
			d := c.den(p)
			s.post = s.apply(d.Effects(ev.Eval(res).V))
		}
		return s.post
	}
	ref := func(ev *spec.Eval, name, word, addr ast.Expr) *rv.M {
		s := c.rvStateOf(p)
		if s.ref == nil {
			n := strArg(ev, name)
			enc, ok := rv.ByName(s.XLen)[n]
			if !ok {
				panic(spec.EvalError{Msg: fmt.Sprintf("the RISC-V reference (RV%d) has no instruction named %q", s.XLen, n)})
			}
			w := ev.Term(ev.Eval(word))
			pc := smt.Resize(ev.Term(ev.Eval(addr)), s.XLen)
			m := rv.NewM(s.XLen, w, pc, s.X, s.CSR, s.MEM)
			enc.Sem(m)
			s.ref = m
		}
		return s.ref
	}
	// rv_post("regs"|"csr"|"mem"|"pc", effects)
	B["rv_post"] = func(ev *spec.Eval, a []ast.Expr) spec.TV {
		ps := post(ev, a[1])
		switch strArg(ev, a[0]) {
		case "regs":
			return raw(ps.X)
		case "csr":
			return raw(ps.CSR)
		case "mem":
			return raw(ps.MEM)
		case "pc":
			return raw(ps.PC)
		}
		panic(spec.EvalError{Msg: "rv_post: unknown component"})
	}
	// rv_ref("regs"|..., name, word, addr)
	B["rv_ref"] = func(ev *spec.Eval, a []ast.Expr) spec.TV {
		m := ref(ev, a[1], a[2], a[3])
		switch strArg(ev, a[0]) {
		case "regs":
			return raw(m.OX)
		case "csr":
			return raw(m.OCSR)
		case "mem":
			return raw(m.OMEM)
		case "pc":
			return raw(m.OPC)
		}
		panic(spec.EvalError{Msg: "rv_ref: unknown component"})
	}
	// rv_nowrap(name, word, addr): memory accesses stay inside the address space
	B["rv_nowrap"] = func(ev *spec.Eval, a []ast.Expr) spec.TV {
		m := ref(ev, a[0], a[1], a[2])
		return spec.TV{V: smt.And(m.NoWrap...)}
	}
	// rv_wellformed(effects): every key is a known register/memory, no
	// effect targets x0, register numbers fit five bits
	B["rv_wellformed"] = func(ev *spec.Eval, a []ast.Expr) spec.TV {
		ps := post(ev, a[0])
		s := c.rvStateOf(p)
		if len(s.Problems) > 0 {
			p.Ghost["rv.problems"] = strings.Join(s.Problems, "; ")
			return spec.TV{V: smt.False}
		}
		return spec.TV{V: smt.And(append([]*smt.Term{ps.NoX0, ps.OK}, s.Side...)...)}
	}
	B["rv_xlen"] = func(ev *spec.Eval, a []ast.Expr) spec.TV {
		return spec.TV{V: big.NewInt(int64(c.rvStateOf(p).XLen))}
	}
}

// useUninterpretedArith makes the reference use the same uninterpreted
// multiplication/division symbols as the code side (ir.Den.BinOp with
// BigLimit 1); ground axioms about them are added by package vc.
func useUninterpretedArith() {
	rv.Mul = func(a, b *smt.Term) *smt.Term {
		if a.IsConst() || b.IsConst() {
			return smt.BVMul(a, b)
		}
		x, y := a, b
		if x.ID > y.ID {
			x, y = y, x
		}
		return smt.AppC(fmt.Sprintf("umul%d", a.S.W), a.S, x, y)
	}
	rv.UDiv = func(a, b *smt.Term) *smt.Term {
		if b.IsConst() {
			return smt.BVUDiv(a, b)
		}
		return smt.App(fmt.Sprintf("udiv%d", a.S.W), a.S, a, b)
	}
}
