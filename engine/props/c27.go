package props

import (
	"strings"

	"gocv/vc"
)

// instantiations returns the concrete instantiations of a generic function.
func (c *Ctx) instantiations(generic string) []string {
	var out []string
	for _, n := range c.P.FuncsMatching(generic + "[") {
		if strings.HasSuffix(n, "[T]") || strings.Contains(n, "$") {
			continue
		}
		out = append(out, n)
	}
	return out
}

// genericUnits verifies the contract of a generic function for every
// instantiation in the program.
func (c *Ctx) genericUnits(name string, mk func(us *UnitSpec)) []*vc.Unit {
	var units []*vc.Unit
	insts := c.instantiations(name)
	if len(insts) == 0 {
		panic("no instantiation of generic function " + name + " in the program")
	}
	for _, in := range insts {
		in := in
		units = append(units, c.ContractUnits(name, func(us *UnitSpec) {
			us.FuncName = in
			if mk != nil {
				mk(us)
			}
		})...)
	}
	return units
}

func init() {
	register(&Prop{
		ID:        "C27",
		Level:     "proof",
		Technique: "contract-based deductive verification: pre/postconditions and panics-iff contracts on the constant constructors, bit-vector VCs per integer type and enumerated width",
		MinObls:   100,
		Note:      "Every constant constructor/reader of pkg/expr is executed symbolically for all values of its integer argument (exact Go bit-vector semantics); widths and byte lengths are enumerated (the loops run over the concrete width). 'panics iff' makes both directions obligations: an in-range value must not panic, an out-of-range value must.",
		Assumptions: []string{
			"generic functions are verified per instantiation present in the program; instantiate_verif.go adds all predeclared integer types",
			"widths/byte lengths: the sets listed under enumerated_sets",
		},
		Build: func(c *Ctx) []*vc.Unit {
			if c.Tier == "thorough" {
				var all, all1 []int64
				for i := int64(0); i <= 255; i++ {
					all = append(all, i)
					if i > 0 {
						all1 = append(all1, i)
					}
				}
				c.Sets["BYTELENS"] = []int64{0, 1, 2, 3, 4, 7, 8, 9, 16, 17, 32}
				c.Sets["BYTELENS1"] = []int64{1, 2, 3, 4, 5, 7, 8, 9, 10, 16, 17, 32, 64}
				c.Sets["WIDTHS0"] = all
				c.Sets["WIDTHS"] = all1
			} else {
				c.Sets["BYTELENS"] = []int64{0, 1, 2, 3, 4, 8, 9}
				c.Sets["BYTELENS1"] = []int64{1, 2, 3, 4, 5, 8, 9, 12}
				c.Sets["WIDTHS0"] = []int64{0, 1, 2, 3, 4, 7, 8, 9, 16}
				c.Sets["WIDTHS"] = []int64{1, 2, 3, 4, 7, 8, 9, 16}
			}
			var units []*vc.Unit
			units = append(units, c.ContractUnits("expr.NewConst", nil)...)
			for _, g := range []string{"expr.NewConstUint", "expr.NewConstInt", "expr.ConstFromUint", "expr.ConstFromInt", "expr.ConstUint"} {
				units = append(units, c.genericUnits(g, nil)...)
			}
			for _, m := range []string{"(expr.Const).WithWidth", "(expr.Const).Equal", "(expr.Const).Width", "(expr.Const).Bytes"} {
				units = append(units, c.ContractUnits(m, nil)...)
			}
			return units
		},
	})
}

// methodUnits verifies the contract of a method of a generic type for every
// instantiation of the receiver in the program: names look like
// "(pkg.T[inst]).Method"; the contract is written as "(T).Method".
func (c *Ctx) methodUnits(prefix, suffix string, mk func(us *UnitSpec)) []*vc.Unit {
	var units []*vc.Unit
	for _, n := range c.P.FuncsMatching(prefix + "[") {
		if !(strings.HasSuffix(n, suffix) || strings.Contains(n, suffix+"[")) || strings.Contains(n, "[T]") || strings.Contains(n, "$") {
			continue
		}
		n := n
		units = append(units, c.ContractUnits(prefix+suffix, func(us *UnitSpec) {
			us.FuncName = n
			if mk != nil {
				mk(us)
			}
		})...)
	}
	if len(units) == 0 {
		panic("no instantiation of " + prefix + suffix + " in the program")
	}
	return units
}
