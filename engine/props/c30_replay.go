package props

import (
	"fmt"
	"strings"

	"gocv/vc"
)

func modelString(o *vc.Outcome, name string, n int) string {
	bs := make([]string, n)
	for i := range bs {
		bs[i] = fmt.Sprintf("0x%02x", modelUint(o, fmt.Sprintf("%s.%d", name, i)))
	}
	return "string([]byte{" + strings.Join(bs, ", ") + "})"
}

// parseAddrReplay judges the real parseAddr with an oracle written from the
// grammar of the property (math/big for the value).
func (c *Ctx) parseAddrReplay(n int) func(o *vc.Outcome) string {
	return func(o *vc.Outcome) string {
		src := fmt.Sprintf(`package memview

import (
	"math/big"
	"strings"
	"testing"

	"mltwist/pkg/model"
)

func gocvDigits(s string, base int) (*big.Int, bool) {
	if s == "" {
		return nil, false
	}
	v := new(big.Int)
	for _, ch := range []byte(s) {
		d := -1
		switch {
		case ch >= '0' && ch <= '9':
			d = int(ch - '0')
		case ch >= 'a' && ch <= 'f':
			d = int(ch-'a') + 10
		case ch >= 'A' && ch <= 'F':
			d = int(ch-'A') + 10
		}
		if d < 0 || d >= base {
			return nil, false
		}
		v.Mul(v, big.NewInt(int64(base))).Add(v, big.NewInt(int64(d)))
	}
	return v, true
}

func TestGocvReplay(t *testing.T) {
	s := %s
	var want *big.Int
	ok := false
	switch {
	case strings.HasPrefix(s, "0x") || strings.HasPrefix(s, "0X"):
		want, ok = gocvDigits(s[2:], 16)
	case strings.HasPrefix(s, "0b") || strings.HasPrefix(s, "0B"):
		want, ok = gocvDigits(s[2:], 2)
	case len(s) > 1 && s[0] == '0':
		want, ok = gocvDigits(s[1:], 8)
	default:
		want, ok = gocvDigits(s, 10)
	}
	if ok && !want.IsUint64() {
		ok = false
	}
	got, err := parseAddr(s)
	if (err == nil) != ok {
		t.Fatalf("parseAddr(%%q): error = %%v, but the grammar of the property says well-formed = %%v", s, err, ok)
	}
	if ok {
		a, isAddr := got.(model.Addr)
		if !isAddr || uint64(a) != want.Uint64() {
			t.Fatalf("parseAddr(%%q) = %%v, want %%v", s, got, want)
		}
	}
}
`, modelString(o, "s", n))
		return replayVerdict(c.P.RepoDir, "internal/consoleui/internal/memview", src)
	}
}
