package props

import (
	"fmt"
	"go/ast"
	"go/types"
	"math/rand"
	"strings"

	"gocv/smt"
	"gocv/spec"
	"gocv/sx"
	"gocv/vc"

	"golang.org/x/tools/go/ssa"
)

// C28: structural utilities (Equal, FindAll, ReplaceAll, Exprs, ExprsMany,
// EffectApply, EffectsApply) on trees of concrete shape.

// mutateTree returns a copy of t with exactly one node changed (operator,
// width, key or node kind), chosen by the seed; v == 0 returns a plain copy.
func mutateTree(t *tdesc, v int, seed int64) *tdesc {
	var nodes []*tdesc
	var cp func(t *tdesc) *tdesc
	cp = func(t *tdesc) *tdesc {
		n := &tdesc{Kind: t.Kind, Op: t.Op, W: t.W, Key: t.Key}
		nodes = append(nodes, n)
		for _, k := range t.Kids {
			n.Kids = append(n.Kids, cp(k))
		}
		return n
	}
	r := cp(t)
	if v == 0 {
		return r
	}
	rng := rand.New(rand.NewSource(seed*1009 + int64(v)*7 + int64(len(nodes))))
	n := nodes[rng.Intn(len(nodes))]
	otherW := func(w int) int {
		ws := []int{1, 2, 4, 8}
		for {
			x := ws[rng.Intn(4)]
			if x != w {
				return x
			}
		}
	}
	switch n.Kind {
	case "const":
		if rng.Intn(2) == 0 {
			n.W = otherW(n.W)
		} else {
			n.Kind, n.Key = "reg", "r1"
		}
	case "zero":
		n.Kind, n.W = "const", 1
	case "reg":
		switch rng.Intn(3) {
		case 0:
			n.W = otherW(n.W)
		case 1:
			if n.Key == "r1" {
				n.Key = "r2"
			} else {
				n.Key = "r1"
			}
		default:
			n.Kind = "const"
		}
	case "mem":
		if rng.Intn(2) == 0 {
			n.W = otherW(n.W)
		} else {
			n.Key = "m2"
		}
	case "bin":
		switch rng.Intn(3) {
		case 0:
			n.W = otherW(n.W)
		case 1:
			n.Op = n.Op%6 + 1
		default:
			n.Kids[0], n.Kids[1] = n.Kids[1], n.Kids[0]
		}
	case "less":
		switch rng.Intn(3) {
		case 0:
			n.W = otherW(n.W)
		case 1:
			n.Kids[2], n.Kids[3] = n.Kids[3], n.Kids[2]
		default:
			n.Kids[0], n.Kids[1] = n.Kids[1], n.Kids[0]
		}
	}
	return r
}

func kindOfInst(fname string) string {
	switch {
	case strings.Contains(fname, "[expr.Const]"):
		return "const"
	case strings.Contains(fname, "[expr.RegLoad]"):
		return "reg"
	case strings.Contains(fname, "[expr.MemLoad]"):
		return "mem"
	case strings.Contains(fname, "[expr.Binary]"):
		return "bin"
	case strings.Contains(fname, "[expr.Less]"):
		return "less"
	}
	return ""
}

func (c *Ctx) kindType(kind string) types.Type {
	switch kind {
	case "const":
		return c.IR.Const
	case "reg":
		return c.IR.RegLoad
	case "mem":
		return c.IR.MemLoad
	case "bin":
		return c.IR.Binary
	case "less":
		return c.IR.Less
	}
	return nil
}

// replSpec is the replacement function used for ReplaceAll[T], written over
// the symbolic tree values: (replacement, true) or (nil, false).
func (c *Ctx) replSpec(kind string, mode int64, v sx.Val) (sx.Val, bool) {
	if mode == 0 {
		return nil, false
	}
	n := c.node(v)
	if n.Kind != kind {
		return nil, false
	}
	w8 := func(t sx.Val) int { k, _ := sx.ConstInt(t); return int(k) }
	switch kind {
	case "reg":
		if n.S.F[0].(sx.Str).S != "r1" {
			return nil, false
		}
		return c.IR.MkRegLoad("q", w8(n.S.F[1])), true
	case "bin":
		if op, _ := sx.ConstInt(n.S.F[0]); op != 1 {
			return nil, false
		}
		return n.Kids[0], true
	case "mem":
		return c.IR.MkRegLoad("mm", w8(n.S.F[2])), true
	case "less":
		return n.Kids[2], true
	case "const":
		sl := n.S.F[0].(sx.Slice)
		if l, _ := sl.Len.Uint64(); l != 1 {
			return nil, false
		}
		return c.IR.MkRegLoad("cc", 1), true
	}
	return nil, false
}

// specSubst is the specification of ReplaceAll: children first, the node is
// rebuilt if a child changed, then the replacement function sees the rebuilt
// node. It returns the new tree and whether anything was replaced.
func (c *Ctx) specSubst(kind string, mode int64, v sx.Val) (sx.Val, bool) {
	n := c.node(v)
	changed := false
	e := v.(sx.Iface)
	s := e.V.(*sx.Struct)
	nf := append([]sx.Val{}, s.F...)
	sub := func(i int) {
		r, ch := c.specSubst(kind, mode, s.F[i])
		if ch {
			nf[i] = r
			changed = true
		}
	}
	switch n.Kind {
	case "mem":
		sub(1)
	case "bin":
		sub(1)
		sub(2)
	case "less":
		sub(0)
		sub(1)
		sub(2)
		sub(3)
	}
	cur := v
	if changed {
		cur = sx.Iface{T: e.T, V: &sx.Struct{F: nf}}
	}
	if r, ok := c.replSpec(kind, mode, cur); ok {
		return r, true
	}
	return cur, changed
}

func (c *Ctx) installC28Builtins(ev *spec.Eval, trees []*tdesc, fname string) {
	B := ev.Builtins
	p := ev.P
	exprPk := c.P.SSA["mltwist/pkg/expr"]
	exprT := exprPk.Type("Expr").Type()
	effectT := exprPk.Type("Effect").Type()
	kind := kindOfInst(fname)
	w8 := func(w int) sx.Val { return smt.BVU(uint64(w), 8) }
	B["tree2"] = func(ev *spec.Eval, a []ast.Expr) spec.TV {
		k := constArg(ev, a[0], "tree index")
		v := constArg(ev, a[1], "variant")
		return spec.TV{V: c.buildTree(p, mutateTree(trees[k], int(v), c.Seed+k), strArg(ev, a[2])), T: exprT}
	}
	B["found_is_preorder"] = func(ev *spec.Eval, a []ast.Expr) spec.TV {
		res := ev.Eval(a[0]).V.(sx.Slice)
		var all, want []sx.Val
		c.preorder(asIface(ev.Eval(a[1])), &all)
		for _, n := range all {
			if c.node(n).Kind == kind {
				want = append(want, n)
			}
		}
		n, ok := res.Len.Uint64()
		if !ok || int(n) != len(want) {
			return spec.TV{V: smt.False}
		}
		if n == 0 {
			return spec.TV{V: smt.True}
		}
		r := smt.True
		for i, e := range p.SliceElems(res) {
			got := e
			if _, isI := got.(sx.Iface); !isI {
				got = sx.Iface{T: c.kindType(kind), V: e}
			}
			r = smt.And(r, c.sameExpr(p, got, want[i]))
		}
		return spec.TV{V: r}
	}
	B["replacer"] = func(ev *spec.Eval, a []ast.Expr) spec.TV {
		mode := constArg(ev, a[0], "mode")
		cl := &sx.Closure{Name: "replacer", Builtin: func(p *sx.Path, args []sx.Val) sx.Val {
			arg := args[0]
			if _, isI := arg.(sx.Iface); !isI {
				arg = sx.Iface{T: c.kindType(kind), V: arg}
			}
			if r, ok := c.replSpec(kind, mode, arg); ok {
				return sx.Tuple{r, smt.True}
			}
			return sx.Tuple{sx.Iface{}, smt.False}
		}}
		return spec.TV{V: cl}
	}
	B["subst_spec"] = func(ev *spec.Eval, a []ast.Expr) spec.TV {
		r, _ := c.specSubst(kind, constArg(ev, a[1], "mode"), asIface(ev.Eval(a[0])))
		return spec.TV{V: r, T: exprT}
	}
	B["subst_matches"] = func(ev *spec.Eval, a []ast.Expr) spec.TV {
		_, ch := c.specSubst(kind, constArg(ev, a[1], "mode"), asIface(ev.Eval(a[0])))
		return spec.TV{V: smt.BoolC(ch)}
	}
	// sametree(a, b): the very same tree value (no node rebuilt)
	B["sametree"] = func(ev *spec.Eval, a []ast.Expr) spec.TV {
		return spec.TV{V: smt.BoolC(sx.SameVal(asIface(ev.Eval(a[0])), asIface(ev.Eval(a[1]))))}
	}
	mkEffect := func(kindE int64, k int64, sfx string) sx.Val {
		n := int64(len(trees))
		val := c.buildTree(p, trees[k%n], sfx+"v")
		if kindE == 0 {
			return sx.Iface{T: c.IR.RegStore, V: &sx.Struct{F: []sx.Val{val, sx.Str{S: "x1"}, w8(2)}}}
		}
		addr := c.buildTree(p, trees[(k+1)%n], sfx+"a")
		return sx.Iface{T: c.IR.MemStore, V: &sx.Struct{F: []sx.Val{val, sx.Str{S: "m"}, addr, w8(4)}}}
	}
	B["effect_of"] = func(ev *spec.Eval, a []ast.Expr) spec.TV {
		return spec.TV{V: mkEffect(constArg(ev, a[0], "effect kind"), constArg(ev, a[1], "tree index"), "e"), T: effectT}
	}
	B["effects_list"] = func(ev *spec.Eval, a []ast.Expr) spec.TV {
		k := constArg(ev, a[0], "tree index")
		n := constArg(ev, a[1], "length")
		var els []sx.Val
		for i := int64(0); i < n; i++ {
			els = append(els, mkEffect((k+i)%2, k+i, fmt.Sprintf("e%d", i)))
		}
		return spec.TV{V: p.NewSlice(effectT, els), T: types.NewSlice(effectT)}
	}
	wrap := func(e sx.Val) sx.Val {
		w := c.den(p).Width(e)
		zero := c.IR.MkConst(p, []*smt.Term{smt.BVU(0, 8)})
		return sx.Iface{T: c.IR.Binary, V: &sx.Struct{F: []sx.Val{smt.BVU(6, 8), e, zero, w8(w)}}}
	}
	// wrapper(): the transformation handed to EffectApply: e -> Nand(e, 0)
	B["wrapper"] = func(ev *spec.Eval, a []ast.Expr) spec.TV {
		return spec.TV{V: &sx.Closure{Name: "wrapper", Builtin: func(p *sx.Path, args []sx.Val) sx.Val { return wrap(args[0]) }}}
	}
	operands := func(ef sx.Val) []sx.Val {
		e := ef.(sx.Iface)
		s := e.V.(*sx.Struct)
		if types.Identical(e.T, c.IR.RegStore) {
			return []sx.Val{s.F[0]}
		}
		return []sx.Val{s.F[2], s.F[0]} // address, value
	}
	// a list holds exactly the given expressions (as a multiset)
	sameMultiset := func(got []sx.Val, want []sx.Val) *smt.Term {
		if len(got) != len(want) {
			return smt.False
		}
		used := make([]bool, len(want))
		for _, g := range got {
			found := false
			for i, w := range want {
				if !used[i] && sx.SameVal(g, w) {
					used[i], found = true, true
					break
				}
			}
			if !found {
				return smt.False
			}
		}
		return smt.True
	}
	elems := func(v spec.TV) []sx.Val {
		sl := v.V.(sx.Slice)
		if n, _ := sl.Len.Uint64(); n == 0 {
			return nil
		}
		return p.SliceElems(sl)
	}
	B["exprs_are_operands"] = func(ev *spec.Eval, a []ast.Expr) spec.TV {
		return spec.TV{V: sameMultiset(elems(ev.Eval(a[0])), operands(asIface(ev.Eval(a[1]))))}
	}
	// the concatenation, effect by effect, of each effect's operands
	B["exprsmany_ok"] = func(ev *spec.Eval, a []ast.Expr) spec.TV {
		got := elems(ev.Eval(a[0]))
		pos := 0
		for _, ef := range elems(ev.Eval(a[1])) {
			ops := operands(ef)
			if pos+len(ops) > len(got) {
				return spec.TV{V: smt.False}
			}
			if sameMultiset(got[pos:pos+len(ops)], ops).IsFalse() {
				return spec.TV{V: smt.False}
			}
			pos += len(ops)
		}
		return spec.TV{V: smt.BoolC(pos == len(got))}
	}
	applied := func(res, orig sx.Val) *smt.Term {
		r, ok1 := res.(sx.Iface)
		o := orig.(sx.Iface)
		if !ok1 || r.T == nil || !types.Identical(r.T, o.T) {
			return smt.False
		}
		rs, os := r.V.(*sx.Struct), o.V.(*sx.Struct)
		cond := smt.True
		for i := range os.F {
			switch f := os.F[i].(type) {
			case sx.Iface: // operand: must be the wrapped original operand
				cond = smt.And(cond, c.sameExpr(p, rs.F[i], wrap(f)))
			case sx.Str:
				cond = smt.And(cond, p.StrEq(rs.F[i].(sx.Str), f))
			case *smt.Term:
				cond = smt.And(cond, smt.Eq(rs.F[i].(*smt.Term), f))
			}
		}
		return cond
	}
	B["effect_applied_ok"] = func(ev *spec.Eval, a []ast.Expr) spec.TV {
		return spec.TV{V: applied(asIface(ev.Eval(a[0])), asIface(ev.Eval(a[1])))}
	}
	B["effects_applied_ok"] = func(ev *spec.Eval, a []ast.Expr) spec.TV {
		got, orig := elems(ev.Eval(a[0])), elems(ev.Eval(a[1]))
		if len(got) != len(orig) {
			return spec.TV{V: smt.False}
		}
		cond := smt.True
		for i := range got {
			cond = smt.And(cond, applied(got[i], orig[i]))
		}
		return spec.TV{V: cond}
	}
}

func init() {
	pr := treeProp("C28", "",
		"Equal (true exactly for identically built trees, checked on pairs of identical shape with independent constants and on pairs differing in one node), FindAll (the nodes of the requested kind in pre-order, for every node kind), ReplaceAll (bottom-up substitution against an independent specification; the very same tree when nothing matches), Exprs/ExprsMany (exactly the operand expressions, effect by effect) and EffectApply/EffectsApply (same kind, key, width, order and number; every operand transformed in its own position) are checked on the real code for every tree shape of the corpus: bounded over shapes, complete over constant values.", 300,
		func(c *Ctx, trees []*tdesc) []*vc.Unit {
			c.Sets["VARIANTS"] = []int64{0, 1, 2, 3}
			c.Sets["REPLMODES"] = []int64{0, 1}
			c.Sets["EKINDS"] = []int64{0, 1}
			c.Sets["ELENS"] = []int64{0, 1, 3}
			mk := func(us *UnitSpec) {
				inner := us.Inputs
				fname := us.FuncName
				us.Inputs = func(p *sx.Path, ev *spec.Eval, fn *ssa.Function) map[string]sx.Val {
					r := inner(p, ev, fn)
					c.installC28Builtins(ev, trees, fname)
					return r
				}
				for _, k := range []string{"v", "m", "ek", "n"} {
					if v, ok := us.Enum[k]; ok {
						us.InstanceName += fmt.Sprintf(" %s=%d", k, v)
					}
				}
				if fname != "" {
					us.InstanceName += " " + fname[strings.Index(fname, "["):]
				}
			}
			var units []*vc.Unit
			units = append(units, c.treeUnits("exprtransform.Equal", trees, mk)...)
			for _, g := range []string{"exprtransform.FindAll", "exprtransform.ReplaceAll"} {
				insts := c.instantiations(g)
				if len(insts) < 5 {
					panic(fmt.Sprintf("%s: %d instantiations found, 5 expected (internal/exprtransform/instantiate_verif.go missing?)", g, len(insts)))
				}
				for _, in := range insts {
					in := in
					if kindOfInst(in) == "" {
						continue
					}
					units = append(units, c.treeUnits(g, trees, func(us *UnitSpec) { us.FuncName = in; mk(us) })...)
				}
			}
			for _, f := range []string{"exprtransform.Exprs", "exprtransform.ExprsMany", "exprtransform.EffectApply", "exprtransform.EffectsApply"} {
				units = append(units, c.treeUnits(f, trees, mk)...)
			}
			return units
		})
	pr.Assumptions = append(pr.Assumptions, "generic functions are verified per instantiation present in the program; internal/exprtransform/instantiate_verif.go adds FindAll and ReplaceAll at all five node kinds",
		"the replacement functions handed to ReplaceAll and the transformation handed to EffectApply are fixed, deterministic functions of the corpus (one per node kind, plus one that declines everything)")
	register(pr)
}
