package props

import (
	"fmt"
	"strings"

	"gocv/vc"
)

// memReplay builds the replay test of a memory unit from a model.
// kind: sparse | bytes | overlay | layouts; op: Load | Missing | Blocks | NewBytes.
func (c *Ctx) memReplay(kind, op string, h memHist, w int64) func(o *vc.Outcome) string {
	return func(o *vc.Outcome) string {
		var sb strings.Builder
		sb.WriteString(`package memory

import (
	"bytes"
	"fmt"
	"testing"

	"mltwist/internal/exprtransform"
	"mltwist/internal/state/interval"
	"mltwist/pkg/expr"
	"mltwist/pkg/model"
)

type gocvBlock struct {
	begin model.Addr
	bs    []byte
}

func (b gocvBlock) Begin() model.Addr { return b.begin }
func (b gocvBlock) Bytes() []byte     { return b.bs }

func gocvIn(m interval.Map[model.Addr], x model.Addr) bool {
	for _, i := range m.Intervals() {
		if i.Begin() <= x && x < i.End() {
			return true
		}
	}
	return false
}

func gocvWF(m interval.Map[model.Addr]) error {
	is := m.Intervals()
	for k, i := range is {
		if !(i.Begin() < i.End()) {
			return fmt.Errorf("empty interval %v", i)
		}
		if k > 0 && !(is[k-1].End() < i.Begin()) {
			return fmt.Errorf("intervals %v and %v not sorted, disjoint and non-adjacent", is[k-1], i)
		}
	}
	return nil
}

func TestGocvReplay(t *testing.T) {
	oracle := map[model.Addr]byte{}
	var blocks []ByteBlock
	var blockCopies [][]byte
	addBlock := func(begin model.Addr, bs []byte) {
		blocks = append(blocks, gocvBlock{begin, bs})
		blockCopies = append(blockCopies, append([]byte{}, bs...))
	}
	_ = addBlock
`)
		for i, n := range h.Blocks {
			val := modelBig(o, fmt.Sprintf("blk%d.begin", i))
			if h.Fixed != nil {
				val.SetUint64(h.Fixed[i])
			}
			var bs []string
			for k := 0; k < n; k++ {
				bs = append(bs, fmt.Sprintf("0x%02x", modelUint(o, fmt.Sprintf("blk%d.b%d", i, k))))
			}
			fmt.Fprintf(&sb, "\taddBlock(0x%x, []byte{%s})\n", val, strings.Join(bs, ", "))
		}
		switch kind {
		case "sparse":
			sb.WriteString("\tvar m Memory = NewSparse()\n")
		case "bytes", "layouts":
			sb.WriteString(`	overlap := false
	for i := range blocks {
		for j := range blocks {
			bi, bj := blocks[i], blocks[j]
			if i < j && len(bi.Bytes()) > 0 && len(bj.Bytes()) > 0 && bi.Begin() < bj.Begin()+model.Addr(len(bj.Bytes())) && bj.Begin() < bi.Begin()+model.Addr(len(bi.Bytes())) {
				overlap = true
			}
		}
	}
	bm, err := NewBytes(blocks)
	if (err != nil) != overlap {
		t.Fatalf("NewBytes: error %v, but blocks overlap = %v", err, overlap)
	}
	if err != nil {
		return
	}
	var m Memory = bm
`)
		case "overlay":
			sb.WriteString(`	bm, err := NewBytes(blocks)
	if err != nil {
		t.Fatalf("NewBytes: %v", err)
	}
	var m Memory = NewOverlay(bm, NewSparse())
`)
		}
		sb.WriteString(`	for _, b := range blocks {
		for i, x := range b.Bytes() {
			oracle[b.Begin()+model.Addr(i)] = x
		}
	}
	var handed []expr.Const
	var copies [][]byte
	store := func(addr model.Addr, val []byte, w int) {
		c := expr.NewConst(val, expr.Width(len(val)))
		handed = append(handed, c)
		copies = append(copies, append([]byte{}, c.Bytes()...))
		m.Store(addr, c, expr.Width(w))
		for i := 0; i < w; i++ {
			var x byte
			if i < len(val) {
				x = val[i]
			}
			oracle[addr+model.Addr(i)] = x
		}
	}
	_ = store
`)
		for j, s := range h.Stores {
			sa := modelBig(o, fmt.Sprintf("st%d.addr", j))
			if j < len(h.StoreAt) && h.StoreAt[j] != 0 {
				sa.SetUint64(h.StoreAt[j])
			}
			fmt.Fprintf(&sb, "\tstore(0x%x, %s, %d)\n", sa, leBytes(modelBig(o, fmt.Sprintf("st%d.val", j)), s[1]), s[0])
		}
		addr := modelBig(o, "in.addr")
		switch op {
		case "Load":
			fmt.Fprintf(&sb, `	addr, w := model.Addr(0x%x), %d
	want := true
	for i := 0; i < w; i++ {
		if _, ok := oracle[addr+model.Addr(i)]; !ok {
			want = false
		}
	}
	ex, ok := m.Load(addr, expr.Width(w))
	if ok != want {
		t.Fatalf("Load(%%#x, %%d): ok = %%v, but every byte written = %%v", addr, w, ok, want)
	}
	if ok {
		if int(ex.Width()) != w {
			t.Fatalf("Load(%%#x, %%d) returned an expression of width %%d", addr, w, ex.Width())
		}
		cst, isC := exprtransform.ConstFold(ex).(expr.Const)
		if !isC {
			t.Fatalf("loaded expression does not fold to a constant")
		}
		for i := 0; i < w; i++ {
			if cst.Bytes()[i] != oracle[addr+model.Addr(i)] {
				t.Fatalf("Load(%%#x, %%d) = %%x, byte %%d should be %%#x", addr, w, cst.Bytes(), i, oracle[addr+model.Addr(i)])
			}
		}
	}
`, addr, w)
		case "Missing":
			fmt.Fprintf(&sb, `	addr, w := model.Addr(0x%x), %d
	miss := m.Missing(addr, expr.Width(w))
	if err := gocvWF(miss); err != nil {
		t.Fatalf("Missing: %%v", err)
	}
	for d := -3; d < w+3; d++ {
		x := addr + model.Addr(d)
		_, have := oracle[x]
		want := d >= 0 && d < w && !have
		if gocvIn(miss, x) != want {
			t.Fatalf("Missing(%%#x, %%d) = %%v: membership of %%#x should be %%v", addr, w, miss, x, want)
		}
	}
`, addr, w)
		case "Blocks":
			sb.WriteString(`	bl := m.Blocks()
	if err := gocvWF(bl); err != nil {
		t.Fatalf("Blocks: %v", err)
	}
	for a := range oracle {
		for d := -2; d <= 2; d++ {
			x := a + model.Addr(d)
			_, have := oracle[x]
			if gocvIn(bl, x) != have {
				t.Fatalf("Blocks() = %v: membership of %#x should be %v", bl, x, have)
			}
		}
	}
	for _, i := range bl.Intervals() {
		for _, x := range []model.Addr{i.Begin(), i.End() - 1} {
			if _, have := oracle[x]; !have {
				t.Fatalf("Blocks() = %v contains %#x, which was never written", bl, x)
			}
		}
	}
`)
		}
		sb.WriteString(`	for i, c := range handed {
		if !bytes.Equal(c.Bytes(), copies[i]) {
			t.Fatalf("constant %d handed to Store was modified: %x, was %x", i, c.Bytes(), copies[i])
		}
	}
	for i, b := range blocks {
		if !bytes.Equal(b.Bytes(), blockCopies[i]) {
			t.Fatalf("block %d handed to NewBytes was modified", i)
		}
	}
	_ = exprtransform.ConstFold
}
`)
		return replayVerdict(c.P.RepoDir, "internal/state/memory", sb.String())
	}
}
