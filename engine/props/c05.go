package props

import (
	"fmt"
	"go/ast"
	"go/types"
	"strings"

	"gocv/smt"
	"gocv/spec"
	"gocv/sx"
	"gocv/vc"

	"golang.org/x/tools/go/ssa"
)

const blockBase = 0x1000

type fact struct {
	cond *smt.Term
	note string
}

type exploration struct {
	facts  map[string][]fact
	states int
	err    string
	// failMoves: the move history leading to the first arrangement whose
	// behaviour differs from the original order (for the replay)
	failMoves [][2]int
}

func (e *exploration) add(tag string, cond *smt.Term, format string, args ...interface{}) {
	e.facts[tag] = append(e.facts[tag], fact{cond, fmt.Sprintf(format, args...)})
}
func (e *exploration) addB(tag string, ok bool, format string, args ...interface{}) {
	e.add(tag, smt.BoolC(ok), format, args...)
}

func rotate(perm []int, from, to int) []int {
	out := append([]int{}, perm...)
	x := out[from]
	if from < to {
		copy(out[from:to], out[from+1:to+1])
	} else {
		copy(out[to+1:from+1], out[to:from])
	}
	out[to] = x
	return out
}

// exploreBlock visits every arrangement reachable by accepted moves
// (breadth-first through the real Move) and collects the facts of C05-C07.
func (c *Ctx) exploreBlock(p *sx.Path, w *depsWorld) *exploration {
	e := &exploration{facts: map[string][]fact{}}
	n := len(w.seq)
	names := func(perm []int) string {
		var ps []string
		for _, k := range perm {
			ps = append(ps, w.al[w.seq[k]].Name)
		}
		return "[" + strings.Join(ps, "; ") + "]"
	}
	orig := w.runBlock()
	edges := w.edges()
	start := w.snapshot()
	seen := map[string]bool{permKey(w.perm()): true}
	queue := []map[int]sx.Val{start}
	hist := [][][2]int{nil}
	itT := c.pkgType("mltwist/internal/deps", "Instruction")
	_ = itT
	intv := func(v sx.Val) int64 { k, _ := sx.ConstInt(v); return k }
	for len(queue) > 0 && e.states < 150 {
		S := queue[0]
		queue = queue[1:]
		H := hist[0]
		hist = hist[1:]
		e.states++
		w.restore(S)
		perm := w.perm()
		arr := names(perm)
		pos := map[int]int{}
		for i, k := range perm {
			pos[k] = i
		}
		// ---- invariants of this arrangement (C07) ----
		addr := uint64(w.base)
		order := w.order()
		lbs, ubs := make([]int64, n), make([]int64, n)
		for i, ip := range order {
			e.addB("index", intv(w.insField(ip, "blockIdx")) == int64(i), "arrangement %s: instruction at position %d has blockIdx %d", arr, i, intv(w.insField(ip, "blockIdx")))
			ca, _ := w.insField(ip, "currAddr").(*smt.Term).Uint64()
			e.addB("addresses", ca == addr, "arrangement %s: instruction at position %d is at 0x%x, contiguous layout puts it at 0x%x", arr, i, ca, addr)
			// lookups through the public API
			r := w.call("(*deps.block).Address", w.block, smt.BVU(ca, 64)).(sx.Tuple)
			found := r[1].(*smt.Term).IsTrue()
			same := false
			if found {
				if st, ok := r[0].(*sx.Struct); ok {
					if fp, ok := st.F[0].(sx.Ptr); ok {
						same = fp.Obj == ip.Obj
					}
				}
			}
			e.addB("lookup", found && same, "arrangement %s: block.Address(0x%x) does not return the instruction at position %d", arr, ca, i)
			r2 := w.call("(*deps.block).Address", w.block, smt.BVU(ca+1, 64)).(sx.Tuple)
			e.addB("lookup", r2[1].(*smt.Term).IsFalse(), "arrangement %s: block.Address(0x%x) finds an instruction although none starts there", arr, ca+1)
			rc := w.call("(*deps.Code).Address", w.code, smt.BVU(ca, 64)).(sx.Tuple)
			okc := rc[1].(*smt.Term).IsTrue()
			if okc {
				okc = rc[0].(*sx.Struct).F[0].(sx.Ptr).Obj == w.block.Obj
			}
			e.addB("lookup", okc, "arrangement %s: Code.Address(0x%x) does not return the block", arr, ca)
			ln, _ := w.insField(ip, "bytes").(sx.Slice).Len.Uint64()
			addr = ca + ln
			lbs[i] = intv(w.call("(*deps.block).LowerBound", w.block, smt.BVI(int64(i), 64)))
			ubs[i] = intv(w.call("(*deps.block).UpperBound", w.block, smt.BVI(int64(i), 64)))
			e.addB("own-bounds", lbs[i] <= int64(i) && int64(i) <= ubs[i], "arrangement %s: position %d lies outside its reported bounds [%d, %d]", arr, i, lbs[i], ubs[i])
		}
		for ed := range edges {
			e.addB("deps-order", pos[ed[0]] < pos[ed[1]], "arrangement %s: %q now precedes %q, on which it depends", arr, w.al[w.seq[ed[1]]].Name, w.al[w.seq[ed[0]]].Name)
		}
		afterInv := w.snapshot()
		e.addB("queries-change-nothing", heapsEqual(S, afterInv), "arrangement %s: LowerBound/UpperBound/Address modified the code model", arr)
		// ---- behaviour (C05) ----
		if e.states > 1 {
			sb := sameBehaviour(p, orig, w.runBlock())
			if !sb.IsTrue() && e.failMoves == nil {
				e.failMoves = append([][2]int{}, H...)
			}
			e.add("same-behaviour", sb, "running %s from an arbitrary state does not end like the original order %s", arr, names(func() []int {
				var id []int
				for i := 0; i < n; i++ {
					id = append(id, i)
				}
				return id
			}()))
		}
		// ---- moves ----
		for from := -1; from <= n; from++ {
			for to := -1; to <= n; to++ {
				w.restore(S)
				valid := from >= 0 && from < n && to >= 0 && to < n
				r := w.call("(*deps.block).Move", w.block, smt.BVI(int64(from), 64), smt.BVI(int64(to), 64)).(sx.Iface)
				accepted := r.T == nil
				want := valid && lbs[max(0, min(from, n-1))] <= int64(to) && int64(to) <= ubs[max(0, min(from, n-1))]
				e.addB("accepted-iff-within-bounds", accepted == want, "arrangement %s: Move(%d, %d) accepted = %v, but valid positions = %v and reported bounds of %d are [%d, %d]", arr, from, to, accepted, valid, from, lbs[max(0, min(from, n-1))], ubs[max(0, min(from, n-1))])
				if !accepted {
					e.addB("rejected-unchanged", heapsEqual(S, w.p.Heap), "arrangement %s: the rejected Move(%d, %d) changed the code model", arr, from, to)
				} else if valid {
					np := w.perm()
					e.addB("shift-by-one", permKey(np) == permKey(rotate(perm, from, to)), "arrangement %s: Move(%d, %d) gives %s", arr, from, to, names(np))
					if !seen[permKey(np)] {
						seen[permKey(np)] = true
						queue = append(queue, w.snapshot())
						hist = append(hist, append(append([][2]int{}, H...), [2]int{from, to}))
					}
				}
				if valid && (to == from+1 || to == from-1) {
					lo, hi := from, to
					if lo > hi {
						lo, hi = hi, lo
					}
					a, b := w.al[w.seq[perm[lo]]], w.al[w.seq[perm[hi]]]
					if independent(a, b, hi == n-1) {
						e.addB("independent-swap", accepted, "arrangement %s: %q and %q (positions %d, %d) are independent, yet Move(%d, %d) is rejected", arr, a.Name, b.Name, lo, hi, from, to)
					}
				}
			}
		}
	}
	w.restore(start)
	for _, t := range []string{"index", "addresses", "lookup", "own-bounds", "deps-order", "queries-change-nothing", "same-behaviour", "accepted-iff-within-bounds", "rejected-unchanged", "shift-by-one", "independent-swap"} {
		if _, ok := e.facts[t]; !ok {
			e.facts[t] = nil
		}
	}
	return e
}

func (c *Ctx) installDepsBuiltins(ev *spec.Eval, corpus []blockSeq) {
	B := ev.Builtins
	p := ev.P
	var cur blockSeq
	B["blockbase"] = func(ev *spec.Eval, a []ast.Expr) spec.TV {
		return spec.TV{V: smt.BVU(blockBase, 64), T: c.pkgType("mltwist/pkg/model", "Addr")}
	}
	B["block_instrs"] = func(ev *spec.Eval, a []ast.Expr) spec.TV {
		k := constArg(ev, a[0], "block index")
		cur = corpus[k]
		return spec.TV{V: c.mkInstrSeq(p, cur, blockBase)}
	}
	var exp *exploration
	p.Ghost["c05.moves"] = func() [][2]int {
		if exp == nil {
			return nil
		}
		return exp.failMoves
	}
	explore := func(ev *spec.Eval) *exploration {
		if exp != nil {
			return exp
		}
		code := ev.Vars["result0"].V
		w, msg := c.depsWorldOf(p, cur, blockBase, code)
		if w == nil {
			exp = &exploration{facts: map[string][]fact{}, err: msg}
			return exp
		}
		exp = c.exploreBlock(p, w)
		return exp
	}
	B["one_block"] = func(ev *spec.Eval, a []ast.Expr) spec.TV {
		e := explore(ev)
		if e.err != "" {
			p.Ghost["detail"] = e.err
		}
		return spec.TV{V: smt.BoolC(e.err == "")}
	}
	// moves(tag): the conjunction of the facts of kind tag over every
	// arrangement reachable through accepted moves
	B["moves"] = func(ev *spec.Eval, a []ast.Expr) spec.TV {
		tag := strArg(ev, a[0])
		e := explore(ev)
		if e.err != "" {
			return spec.TV{V: smt.True} // reported by one_block
		}
		fs, ok := e.facts[tag]
		if !ok {
			panic(spec.EvalError{Msg: "moves: unknown fact kind " + tag})
		}
		cond := smt.True
		for _, f := range fs {
			if f.cond.IsTrue() {
				continue
			}
			if _, has := p.Ghost["detail"]; !has {
				p.Ghost["detail"] = f.note
			}
			cond = smt.And(cond, f.cond)
		}
		return spec.TV{V: cond}
	}
}

func depsProp(id, technique, claim string, tags []string, extraAssumptions ...string) *Prop {
	return &Prop{
		ID:        id,
		Level:     "other",
		Technique: technique,
		MinObls:   200,
		Claim:     claim,
		Note:      "bounded stand-in: blocks over an alphabet of 19 lifted instruction templates (register moves and arithmetic, loads and stores to two memory spaces, fence, ecall, a CSR access, auipc, a jump-to-next jal, and three terminating jumps): every block of 1-2 (thorough 1-3) instructions and seeded random blocks of up to 4 (thorough 5). The code model is built by the real NewCode; every arrangement reachable through accepted moves is visited breadth-first through the real Move (at most 150 arrangements per block), and every Move(from, to) with from, to in -1..n is tried in each.",
		Assumptions: append([]string{
			"bounded: blocks of the corpus (alphabet of 19 instruction templates, lengths up to 4 / 5)",
			"block behaviour is defined by stepping as the emulator does: the instruction at the current address is looked up in the current layout, effects are evaluated in the pre-state and applied in order, a write of the instruction pointer is a jump (IR semantics of DESIGN §4.1)",
			"Go maps are modelled as association lists (iteration in insertion order: one of the orders the runtime may choose)",
			"initial register values are below 2^62, so no memory access of a block wraps around the address space",
		}, extraAssumptions...),
		Build: func(c *Ctx) []*vc.Unit {
			corpus := blockCorpus(c.Tier, c.Seed)
			var idx []int64
			for i := range corpus {
				idx = append(idx, int64(i))
			}
			c.Sets["BLOCKS"] = idx
			want := map[string]bool{"builds-one-block": true}
			for _, t := range tags {
				want[t] = true
			}
			var extra []*vc.Unit
			if id == "C05" || id == "C07" {
				extra = c.codeMoveUnits()
			}
			return append(extra, c.ContractUnits("deps.NewCode", func(us *UnitSpec) {
				s := corpus[us.Enum["b"]]
				us.Bounded = "blocks of the corpus"
				us.InstanceName = fmt.Sprintf("b=%d %s", us.Enum["b"], s)
				us.OnlyTags = func(tag string) bool { return want[tag] }
				var movesOf func() [][2]int
				if id == "C05" {
					us.Replay = c.blockReplay(s, func() [][2]int {
						if movesOf == nil {
							return nil
						}
						return movesOf()
					})
				}
				us.Setup = func(p *sx.Path, ev *spec.Eval) {
					if f, ok := p.Ghost["c05.moves"].(func() [][2]int); ok {
						movesOf = f
					}
				}
				us.CallHook = c.valueHook
				us.Inputs = func(p *sx.Path, ev *spec.Eval, fn *ssa.Function) map[string]sx.Val {
					c.installDepsBuiltins(ev, corpus)
					// memory accesses that wrap around the address space are
					// excluded (as in C01): initial register values below 2^62
					for _, r := range []string{"x1", "x2", "csr1"} {
						p.Assume(smt.BVUlt(smt.Var("r0."+r, smt.BV(64)), smt.BVU(1<<62, 64)))
					}
					env := c.leafEnv(p)
					env.BigLimit = 0
					p.Ghost["env"] = env
					return nil
				}
			})...)
		},
	}
}

func init() {
	register(depsProp("C05",
		"contract-based deductive verification of the real dependency analysis and move machinery against block behaviour; currently bounded: exhaustive exploration of the arrangements reachable by accepted moves for blocks of a corpus, behaviour compared for all machine states",
		"For every block of the corpus, every arrangement reachable through moves the real Move accepts is executed from an arbitrary machine state (registers and memory symbolic) and must end in the same registers, memory and instruction pointer as the original order: bounded over blocks, complete over states and over move histories of each block.",
		[]string{"reordering-preserves-behaviour"}))
	register(depsProp("C06",
		"contract-based deductive verification of the real dependency analysis: an adjacent swap of two instructions that are independent by the property's own conditions must be accepted; currently bounded: blocks of a corpus, every reachable arrangement",
		"In every reachable arrangement of every block of the corpus, Move(i, i+1) and Move(i+1, i) are accepted whenever the two instructions share no register, have no memory conflict, neither is a system call or CPU-state change, no memory-ordering pairing applies and the later one is not the block's terminating jump (conditions computed from the templates' declared reads and writes, not by the code under test).",
		[]string{"independent-adjacent-swap-accepted"}))
	register(depsProp("C07",
		"contract-based deductive verification of the real move bookkeeping (Move, checkMove, LowerBound, UpperBound, Address, moveFwd/moveBack); currently bounded: every arrangement reachable by accepted moves for blocks of a corpus, every Move(from, to) including invalid positions",
		"For every block of the corpus and every arrangement reachable through accepted moves: Move(from, to) is accepted exactly when both positions are valid and to lies within the bounds reported for from; a rejected move leaves every heap object unchanged; an accepted move rotates the instructions in between by one; blockIdx equals the position, addresses are contiguous from the block start, block.Address and Code.Address find every instruction at its current address (and nothing in between), every instruction lies within its own bounds and after everything it depends on. Block moves (Code.Move) are checked on multi-block layouts: error exactly for invalid positions, otherwise the block order is rotated and no address, bound or lookup changes.",
		[]string{"move-accepted-iff-within-reported-bounds", "rejected-move-changes-nothing", "accepted-move-shifts-by-one", "index-is-position", "contiguous-addresses", "address-lookup-finds-each-instruction", "within-own-bounds", "follows-its-dependencies", "queries-change-nothing"}))
}

// ---------- block moves (Code.Move) on multi-block layouts ----------

// codeLayouts: lists of blocks (template sequences); block k starts at
// blockBase + 0x100*k, so address gaps separate the blocks.
func codeLayouts() [][]blockSeq {
	n := tix
	return [][]blockSeq{
		{{n("nop")}},
		{{n("li x1,5"), n("mv x2,x1")}, {n("nop"), n("nop")}},
		{{n("li x1,5")}, {n("addi x1,x1,1"), n("j T")}, {n("li x2,7"), n("sd x2,0(x1)")}},
		{{n("nop")}, {n("ld x1,0(x2)")}, {n("fence"), n("ecall")}, {n("li x1,5"), n("jr x1")}},
	}
}

type layoutInfo struct {
	code     sx.Ptr
	blocks   []sx.Ptr // in address order (= initial order)
	insAddrs map[int]uint64
	seqs     map[int][]int // block object -> instruction objects
	byAddr   sx.Val
}

func (c *Ctx) installLayoutBuiltins(ev *spec.Eval) {
	B := ev.Builtins
	p := ev.P
	ct := c.pkgType("mltwist/internal/deps", "Code")
	bt := c.pkgType("mltwist/internal/deps", "block")
	it := c.pkgType("mltwist/internal/deps", "instruction")
	var li *layoutInfo
	blocksOf := func(code sx.Ptr) []sx.Ptr {
		cs := p.Load(code, "code").(*sx.Struct)
		var out []sx.Ptr
		sl := cs.F[fieldIdx(ct, "blocks")].(sx.Slice)
		if n, _ := sl.Len.Uint64(); n > 0 {
			for _, e := range p.SliceElems(sl) {
				out = append(out, e.(sx.Ptr))
			}
		}
		return out
	}
	seqOf := func(b sx.Ptr) []sx.Ptr {
		bs := p.Load(b, "block").(*sx.Struct)
		var out []sx.Ptr
		for _, e := range p.SliceElems(bs.F[fieldIdx(bt, "seq")].(sx.Slice)) {
			out = append(out, e.(sx.Ptr))
		}
		return out
	}
	B["code_layout"] = func(ev *spec.Eval, a []ast.Expr) spec.TV {
		l := codeLayouts()[constArg(ev, a[0], "layout index")]
		al := insAlphabet()
		pit := c.pkgType("mltwist/internal/parser", "Instruction")
		var els []sx.Val
		for k, s := range l {
			base := uint64(blockBase + 0x100*k)
			for i, t := range s {
				els = append(els, c.mkParserInstr(p, al[t], base+4*uint64(i), blockBase, 4))
			}
		}
		saved := p.NoSafety
		p.NoSafety = true
		r := p.Call(c.Func("deps.NewCode"), []sx.Val{smt.BVU(blockBase, 64), p.NewSlice(pit, els)}, nil, nil).(sx.Tuple)
		p.NoSafety = saved
		if e := r[1].(sx.Iface); e.T != nil {
			panic(spec.EvalError{Msg: "NewCode rejected a layout of the corpus"})
		}
		li = &layoutInfo{code: r[0].(sx.Ptr), insAddrs: map[int]uint64{}, seqs: map[int][]int{}}
		li.blocks = blocksOf(li.code)
		if len(li.blocks) != len(l) {
			panic(spec.EvalError{Msg: fmt.Sprintf("layout built %d blocks, %d expected", len(li.blocks), len(l))})
		}
		for _, b := range li.blocks {
			for _, ip := range seqOf(b) {
				a, _ := p.Load(ip, "ins").(*sx.Struct).F[fieldIdx(it, "currAddr")].(*smt.Term).Uint64()
				li.insAddrs[ip.Obj] = a
				li.seqs[b.Obj] = append(li.seqs[b.Obj], ip.Obj)
			}
		}
		li.byAddr = p.Load(li.code, "code").(*sx.Struct).F[fieldIdx(ct, "blocksByAddr")]
		return spec.TV{V: li.code, T: types.NewPointer(ct)}
	}
	B["blockmove_valid"] = func(ev *spec.Eval, a []ast.Expr) spec.TV {
		f, t := constArg(ev, a[0], "from"), constArg(ev, a[1], "to")
		n := int64(len(li.blocks))
		return spec.TV{V: smt.BoolC(f >= 0 && f < n && t >= 0 && t < n)}
	}
	B["blockmove"] = func(ev *spec.Eval, a []ast.Expr) spec.TV {
		what := strArg(ev, a[0])
		f, t := int(constArg(ev, a[1], "from")), int(constArg(ev, a[2], "to"))
		now := blocksOf(li.code)
		fail := func(format string, args ...interface{}) spec.TV {
			p.Ghost["detail"] = fmt.Sprintf(format, args...)
			return spec.TV{V: smt.False}
		}
		switch what {
		case "rotated":
			var id []int
			for i := range li.blocks {
				id = append(id, i)
			}
			want := rotate(id, f, t)
			if len(now) != len(want) {
				return fail("%d blocks after the move", len(now))
			}
			for i, k := range want {
				if now[i].Obj != li.blocks[k].Obj {
					return fail("position %d holds another block than the rotation of the block order prescribes", i)
				}
				if idx, _ := sx.ConstInt(p.Load(now[i], "block").(*sx.Struct).F[fieldIdx(bt, "idx")]); idx != int64(i) {
					return fail("block at position %d reports index %d", i, idx)
				}
			}
		case "nothing-else":
			if !sx.SameVal(p.Load(li.code, "code").(*sx.Struct).F[fieldIdx(ct, "blocksByAddr")], li.byAddr) {
				return fail("the address-ordered block list changed")
			}
			for k, b := range li.blocks {
				seq := seqOf(b)
				if len(seq) != len(li.seqs[b.Obj]) {
					return fail("block %d has another number of instructions", k)
				}
				want := uint64(blockBase + 0x100*k)
				bs := p.Load(b, "block").(*sx.Struct)
				if bg, _ := bs.F[fieldIdx(bt, "begin")].(*smt.Term).Uint64(); bg != want {
					return fail("block %d now begins at 0x%x", k, bg)
				}
				for i, ip := range seq {
					if ip.Obj != li.seqs[b.Obj][i] {
						return fail("block %d: instruction order changed", k)
					}
					ca, _ := p.Load(ip, "ins").(*sx.Struct).F[fieldIdx(it, "currAddr")].(*smt.Term).Uint64()
					if ca != li.insAddrs[ip.Obj] {
						return fail("an instruction of block %d moved from 0x%x to 0x%x", k, li.insAddrs[ip.Obj], ca)
					}
					saved := p.NoSafety
					p.NoSafety = true
					rc := p.Call(c.Func("(*deps.Code).Address"), []sx.Val{li.code, smt.BVU(ca, 64)}, nil, nil).(sx.Tuple)
					p.NoSafety = saved
					if !rc[1].(*smt.Term).IsTrue() || rc[0].(*sx.Struct).F[0].(sx.Ptr).Obj != b.Obj {
						return fail("Code.Address(0x%x) no longer finds block %d", ca, k)
					}
				}
			}
		default:
			panic(spec.EvalError{Msg: "blockmove: unknown fact " + what})
		}
		return spec.TV{V: smt.True}
	}
}

func (c *Ctx) codeMoveUnits() []*vc.Unit {
	var ls []int64
	for i := range codeLayouts() {
		ls = append(ls, int64(i))
	}
	c.Sets["LAYOUTS"] = ls
	c.Sets["BLKIDX"] = []int64{-1, 0, 1, 2, 3, 4}
	return c.ContractUnits("(*deps.Code).Move", func(us *UnitSpec) {
		us.Bounded = "multi-block layouts of the corpus"
		us.CallHook = c.valueHook
		us.Inputs = func(p *sx.Path, ev *spec.Eval, fn *ssa.Function) map[string]sx.Val {
			c.installLayoutBuiltins(ev)
			env := c.leafEnv(p)
			env.BigLimit = 0
			p.Ghost["env"] = env
			return nil
		}
	})
}
