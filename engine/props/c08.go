package props

import (
	"fmt"
	"go/ast"
	"math/rand"
	"sort"
	"strings"

	"gocv/smt"
	"gocv/spec"
	"gocv/sx"
	"gocv/vc"

	"golang.org/x/tools/go/ssa"
)

// C08: basic blocks. A code layout is a list of instructions (template,
// address, jump target) handed to NewCode in a shuffled order, plus an entry
// point.

type layIns struct {
	T      int // template index: nop, jal +4, j T, bltu T, bgeu T, jr
	Addr   uint64
	Target uint64
}

type codeLayout struct {
	Ins   []layIns // in the order handed to NewCode
	Entry uint64
}

func (l codeLayout) String() string {
	al := insAlphabet()
	var ps []string
	for _, i := range l.Ins {
		s := fmt.Sprintf("%x:%s", i.Addr, strings.Fields(al[i.T].Name)[0])
		if al[i.T].Name == "j T" || al[i.T].Name == "bltu x1,x2,T" || al[i.T].Name == "bgeu x1,x2,T" {
			s += fmt.Sprintf("->%x", i.Target)
		}
		ps = append(ps, s)
	}
	return fmt.Sprintf("entry=%x [%s]", l.Entry, strings.Join(ps, " "))
}

func layoutCorpus(tier string, seed int64) []codeLayout {
	kinds := tixs("nop", "jal x1,+4", "j T", "bltu x1,x2,T", "bgeu x1,x2,T", "jr x1")
	var out []codeLayout
	out = append(out, codeLayout{Entry: 0x1000}) // no instructions at all
	rng := rand.New(rand.NewSource(seed*977 + 3))
	gen := func(n int, exhaustiveKinds []int, gaps int, shuffle bool) {
		// addresses
		addrs := make([]uint64, n)
		a := uint64(0x1000)
		for i := range addrs {
			if i > 0 && gaps&(1<<uint(i-1)) != 0 {
				a += 0x10
			}
			addrs[i] = a
			a += 4
		}
		cands := append([]uint64{}, addrs...)
		cands = append(cands, addrs[0]+2, a, a+8, 0x0ff0)
		if gaps != 0 {
			cands = append(cands, a-4-0x8)
		}
		var ins []layIns
		for i := 0; i < n; i++ {
			ins = append(ins, layIns{T: exhaustiveKinds[i], Addr: addrs[i], Target: cands[rng.Intn(len(cands))]})
		}
		if shuffle {
			rng.Shuffle(len(ins), func(i, j int) { ins[i], ins[j] = ins[j], ins[i] })
		}
		out = append(out, codeLayout{Ins: ins, Entry: cands[rng.Intn(len(cands))]})
		// the same code with an entry at an instruction start (otherwise most
		// layouts are rejected for their entry point alone)
		out = append(out, codeLayout{Ins: ins, Entry: addrs[rng.Intn(n)]})
	}
	// systematic: every kind vector for n = 1, 2 (and 3 in thorough), every gap pattern
	maxFull := 2
	if tier == "thorough" {
		maxFull = 3
	}
	for n := 1; n <= maxFull; n++ {
		idx := make([]int, n)
		for {
			ks := make([]int, n)
			for i := range ks {
				ks[i] = kinds[idx[i]]
			}
			for g := 0; g < 1<<uint(n-1); g++ {
				gen(n, ks, g, false)
			}
			k := 0
			for k < n {
				idx[k]++
				if idx[k] < len(kinds) {
					break
				}
				idx[k] = 0
				k++
			}
			if k == n {
				break
			}
		}
	}
	nrand := 500
	if tier == "thorough" {
		nrand = 6000
	}
	for i := 0; i < nrand; i++ {
		n := 3 + rng.Intn(3)
		ks := make([]int, n)
		for k := range ks {
			if rng.Intn(2) == 0 {
				ks[k] = tix("nop")
			} else {
				ks[k] = kinds[rng.Intn(len(kinds))]
			}
		}
		gen(n, ks, rng.Intn(1<<uint(n-1))&rng.Intn(1<<uint(n-1)), true)
	}
	return out
}

// specPartition: the partition the property prescribes, or an error.
func specPartition(l codeLayout) ([][]uint64, string) {
	ins := append([]layIns{}, l.Ins...)
	sort.Slice(ins, func(i, j int) bool { return ins[i].Addr < ins[j].Addr })
	starts := map[uint64]bool{}
	for _, i := range ins {
		starts[i.Addr] = true
	}
	// real jump targets: possible targets other than the next instruction
	realJump := func(i layIns) (bool, []uint64) {
		end := i.Addr + 4
		switch insAlphabet()[i.T].Name {
		case "j T", "bltu x1,x2,T", "bgeu x1,x2,T": // T, or (branches) the next instruction
			if i.Target != end {
				return true, []uint64{i.Target}
			}
			return false, nil
		case "jr x1": // unknown target
			return true, nil
		}
		return false, nil
	}
	cut := map[uint64]bool{l.Entry: true}
	if !starts[l.Entry] {
		return nil, fmt.Sprintf("entry point 0x%x is not the start of an instruction", l.Entry)
	}
	for _, i := range ins {
		_, ts := realJump(i)
		for _, t := range ts {
			if !starts[t] {
				return nil, fmt.Sprintf("jump target 0x%x is not the start of an instruction", t)
			}
			cut[t] = true
		}
	}
	var blocks [][]uint64
	for k, i := range ins {
		newBlock := k == 0
		if k > 0 {
			prev := ins[k-1]
			rj, _ := realJump(prev)
			newBlock = prev.Addr+4 != i.Addr || rj || cut[i.Addr]
		}
		if newBlock {
			blocks = append(blocks, nil)
		}
		blocks[len(blocks)-1] = append(blocks[len(blocks)-1], i.Addr)
	}
	return blocks, ""
}

func (c *Ctx) installPartitionBuiltins(ev *spec.Eval, corpus []codeLayout) {
	B := ev.Builtins
	p := ev.P
	var cur codeLayout
	B["layout_entry"] = func(ev *spec.Eval, a []ast.Expr) spec.TV {
		cur = corpus[constArg(ev, a[0], "layout index")]
		return spec.TV{V: smt.BVU(cur.Entry, 64), T: c.pkgType("mltwist/pkg/model", "Addr")}
	}
	B["layout_instrs"] = func(ev *spec.Eval, a []ast.Expr) spec.TV {
		cur = corpus[constArg(ev, a[0], "layout index")]
		al := insAlphabet()
		pit := c.pkgType("mltwist/internal/parser", "Instruction")
		var els []sx.Val
		for _, i := range cur.Ins {
			els = append(els, c.mkParserInstr(p, al[i.T], i.Addr, i.Target, 4))
		}
		if len(els) == 0 {
			return spec.TV{V: sx.Slice{Off: smt.BVU(0, 64), Len: smt.BVU(0, 64), Cap: smt.BVU(0, 64)}}
		}
		return spec.TV{V: p.NewSlice(pit, els)}
	}
	B["partition_must_fail"] = func(ev *spec.Eval, a []ast.Expr) spec.TV {
		_, msg := specPartition(cur)
		if msg != "" {
			p.Ghost["detail"] = msg
		}
		return spec.TV{V: smt.BoolC(msg != "")}
	}
	// partition_exact(code): the blocks of code, in address order, are exactly
	// the partition the property prescribes
	B["partition_exact"] = func(ev *spec.Eval, a []ast.Expr) spec.TV {
		want, msg := specPartition(cur)
		if msg != "" {
			return spec.TV{V: smt.True}
		}
		code := ev.Eval(a[0]).V.(sx.Ptr)
		ct := c.pkgType("mltwist/internal/deps", "Code")
		bt := c.pkgType("mltwist/internal/deps", "block")
		it := c.pkgType("mltwist/internal/deps", "instruction")
		cs := p.Load(code, "code").(*sx.Struct)
		var got [][]uint64
		sl := cs.F[fieldIdx(ct, "blocks")].(sx.Slice)
		if n, _ := sl.Len.Uint64(); n > 0 {
			for _, b := range p.SliceElems(sl) {
				bs := p.Load(b.(sx.Ptr), "block").(*sx.Struct)
				var as []uint64
				for _, ip := range p.SliceElems(bs.F[fieldIdx(bt, "seq")].(sx.Slice)) {
					x, _ := p.Load(ip.(sx.Ptr), "ins").(*sx.Struct).F[fieldIdx(it, "currAddr")].(*smt.Term).Uint64()
					as = append(as, x)
				}
				got = append(got, as)
			}
		}
		if fmt.Sprint(got) != fmt.Sprint(want) {
			p.Ghost["detail"] = fmt.Sprintf("blocks built: %x, the property prescribes: %x", got, want)
			return spec.TV{V: smt.False}
		}
		return spec.TV{V: smt.True}
	}
}

func init() {
	register(&Prop{
		ID:        "C08",
		Level:     "other",
		Technique: "contract-based deductive verification of the real code-model construction (NewCode, basicblock.Parse and its splitting pipeline, deps.jumps) against an independently computed partition; currently bounded: code layouts of a corpus",
		MinObls:   200,
		Claim:     "For every code layout of the corpus (1-5 instructions: plain, jump-to-next, constant jump, conditional branch, indirect jump; with and without address gaps; handed over in shuffled order; entry points and jump targets at instruction starts, inside instructions, in gaps and outside the code), NewCode fails exactly when the entry point or a constant real jump target is not an instruction start, never panics, and otherwise builds exactly the partition the property prescribes.",
		Note:      "bounded stand-in: every kind vector of 1-2 (thorough 1-3) instructions with every gap pattern, plus seeded random layouts of 3-5 instructions; each layout with a random entry candidate and with an entry at an instruction start. The expected partition is computed from the layout description (addresses, kinds, targets) by the rules of the property, not from the code's data structures.",
		Assumptions: []string{
			"bounded: code layouts of the corpus (at most 5 instructions of 4 bytes)",
			"sort.Slice is modelled by an insertion sort through the real less closure; sort.Search is the real code, interpreted",
		},
		Build: func(c *Ctx) []*vc.Unit {
			corpus := layoutCorpus(c.Tier, c.Seed)
			var idx []int64
			for i := range corpus {
				idx = append(idx, int64(i))
			}
			c.Sets["CODELAYOUTS"] = idx
			return c.ContractUnits("deps.NewCode#partition", func(us *UnitSpec) {
				us.FuncName = "deps.NewCode"
				us.Bounded = "code layouts of the corpus"
				us.InstanceName = fmt.Sprintf("l=%d %s", us.Enum["l"], corpus[us.Enum["l"]])
				us.CallHook = c.valueHook
				us.Replay = c.partitionReplay(corpus[us.Enum["l"]])
				us.Inputs = func(p *sx.Path, ev *spec.Eval, fn *ssa.Function) map[string]sx.Val {
					c.installPartitionBuiltins(ev, corpus)
					env := c.leafEnv(p)
					env.BigLimit = 0
					p.Ghost["env"] = env
					return nil
				}
			})
		},
	})
}
