package props

import (
	"bufio"
	"encoding/json"
	"os"
	"path/filepath"
	"sort"
	"strings"
)

// NotApplicable holds reasons for properties without a check.
var NotApplicable = map[string]string{}

// WriteManifest regenerates /verif/MANIFEST.json from the registry.
func WriteManifest(verifDir string, repoCommits []string) error {
	f, err := os.Open(filepath.Join(verifDir, "properties.jsonl"))
	if err != nil {
		return err
	}
	defer f.Close()
	var ids []string
	sc := bufio.NewScanner(f)
	sc.Buffer(make([]byte, 1<<20), 1<<22)
	for sc.Scan() {
		var p struct {
			ID string `json:"id"`
		}
		if json.Unmarshal(sc.Bytes(), &p) == nil && p.ID != "" {
			ids = append(ids, p.ID)
		}
	}
	sort.Strings(ids)
	var checks []map[string]interface{}
	var na []map[string]string
	var served []string
	for _, id := range ids {
		pr, ok := Registry[id]
		if !ok {
			reason := NotApplicable[id]
			if reason == "" {
				reason = "no check is claimed yet: the contracts for this property are not written; see DESIGN.md §5 for the plan"
			}
			na = append(na, map[string]string{"property_id": id, "reason": reason})
			continue
		}
		served = append(served, id)
		cat := pr.Level
		text := pr.Note
		if pr.Claim != "" {
			text = pr.Claim
		}
		checks = append(checks, map[string]interface{}{
			"property_id":         id,
			"quick_cmd":           "./check " + id + " quick",
			"thorough_cmd":        "./check " + id + " thorough",
			"evidence_file":       "/verif/evidence/" + id + ".json",
			"replay_cmd_template": "cat {path}",
			"engine":              "gocv",
			"level_claimed":       map[string]string{"category": cat, "text": text, "design_ref": "DESIGN.md §5 " + id},
			"level_note":          strings.Join(append(append([]string{}, pr.Assumptions...), pr.Trusted...), "; "),
			"technique":           pr.Technique,
		})
	}
	m := map[string]interface{}{
		"version":   1,
		"setup_cmd": "cd /verif/engine && GOFLAGS=-mod=vendor GOPROXY=off GOSUMDB=off GOTOOLCHAIN=local go build -o ../bin/gocv ./cmd/gocv",
		"hooks": map[string]interface{}{
			"guard":            "verif",
			"enable":           "gocv loads /repo with -tags verif; the hooks are comment-only contract files contracts_verif.go (read as text) plus pkg/expr/instantiate_verif.go (generic instantiations)",
			"baseline_off_cmd": "cd /repo && go test -mod=mod -vet=off -count=1 -timeout 25m ./...",
			"source_commits":   repoCommits,
			"add_only":         true,
		},
		"engines": []map[string]interface{}{{
			"name": "gocv", "path": "/verif/engine", "serves_properties": served,
			"kind_free_text": "self-written contract-based deductive verifier for Go: contracts in //@ comments of /repo, verification conditions generated from go/ssa of the current source on every run (symbolic execution between cut points, callee contracts), discharged by z3 4.8.12 / z3 5.1.0 / cvc5",
		}},
		"checks":         checks,
		"not_applicable": na,
		"notes":          "Every check reloads /repo's working tree (go/packages, -tags verif), regenerates all obligations and solves them again; nothing is cached between runs. known_findings.json lists repaired (fixed:) and recorded defects. See DESIGN.md.",
	}
	data, err := json.MarshalIndent(m, "", " ")
	if err != nil {
		return err
	}
	return os.WriteFile(filepath.Join(verifDir, "MANIFEST.json"), append(data, '\n'), 0o644)
}
