// Package props turns the contracts of /repo into verification units, one
// family per property of /verif/properties.jsonl.
package props

import (
	"fmt"
	"go/ast"
	"go/types"
	"sort"
	"strings"

	"gocv/ir"
	"gocv/smt"
	"gocv/spec"
	"gocv/sx"
	"gocv/vc"

	"golang.org/x/tools/go/ssa"
)

// Ctx is everything a property driver needs.
type Ctx struct {
	P         *sx.Program
	Files     []*spec.File
	Contracts map[string]*spec.Contract // by qualified name, e.g. "exprtools.Negate"
	SpecFuncs map[string]*spec.SpecFunc
	IR        *ir.Types
	Tier      string
	Seed      int64
	Assumed   []string // assumptions collected while building units
	Inlined   map[string]bool
	Sets      map[string][]int64
}

// NewCtx loads the contracts.
func NewCtx(P *sx.Program, tier string, seed int64) (*Ctx, error) {
	files, err := spec.LoadAll(P.RepoDir, "mltwist")
	if err != nil {
		return nil, err
	}
	c := &Ctx{P: P, Files: files, Contracts: map[string]*spec.Contract{}, SpecFuncs: map[string]*spec.SpecFunc{}, Tier: tier, Seed: seed, Inlined: map[string]bool{}, Sets: map[string][]int64{}}
	c.IR = ir.LoadTypes(P)
	for _, f := range files {
		short := shortPkg(f.Pkg)
		for _, ct := range f.Contracts {
			name := short + "." + ct.Func
			if strings.HasPrefix(ct.Func, "(*") {
				name = "(*" + short + "." + ct.Func[2:]
			} else if strings.HasPrefix(ct.Func, "(") {
				name = "(" + short + "." + ct.Func[1:]
			}
			if _, dup := c.Contracts[name]; dup {
				return nil, fmt.Errorf("%s:%d: duplicate contract for %s", ct.File, ct.Line, name)
			}
			c.Contracts[name] = ct
		}
		for _, sf := range f.Funcs {
			if _, dup := c.SpecFuncs[sf.Name]; dup {
				return nil, fmt.Errorf("duplicate spec function %s", sf.Name)
			}
			c.SpecFuncs[sf.Name] = sf
		}
	}
	return c, nil
}

func shortPkg(p string) string {
	p = strings.TrimPrefix(p, "mltwist/internal/")
	p = strings.TrimPrefix(p, "mltwist/pkg/")
	p = strings.TrimPrefix(p, "mltwist/")
	return p
}

// Contract returns the contract of a function or fails.
func (c *Ctx) Contract(name string) *spec.Contract {
	ct, ok := c.Contracts[name]
	if !ok {
		panic(fmt.Sprintf("no contract for %s in /repo (contracts_verif.go)", name))
	}
	return ct
}

// Func returns the SSA function by contract name.
func (c *Ctx) Func(name string) *ssa.Function {
	f := c.P.Func(name)
	if f == nil {
		panic(fmt.Sprintf("function %s not found in /repo (renamed or removed?)", name))
	}
	return f
}

// NewEval creates an evaluator bound to a path.
func (c *Ctx) NewEval(p *sx.Path, pkg *types.Package) *spec.Eval {
	ev := &spec.Eval{P: p, Prog: c.P, Vars: map[string]spec.TV{}, Funcs: c.SpecFuncs, Builtins: map[string]spec.Builtin{}, Pkg: pkg}
	c.installBuiltins(ev)
	c.installValueBuiltins(ev)
	return ev
}

// Snapshot prepares old(): copies heap and variables.
func Snapshot(ev *spec.Eval) {
	old := *ev
	old.Vars = map[string]spec.TV{}
	for k, v := range ev.Vars {
		old.Vars[k] = v
	}
	old.Old = nil
	h := make(map[int]sx.Val, len(ev.P.Heap))
	for k, v := range ev.P.Heap {
		h[k] = v
	}
	ev.Old = &old
	ev.OldHeap = h
}

// product enumerates the cartesian product of the enum sets.
func product(names []string, sets [][]int64) []map[string]int64 {
	out := []map[string]int64{{}}
	for i, n := range names {
		var next []map[string]int64
		for _, m := range out {
			for _, v := range sets[i] {
				mm := map[string]int64{}
				for k, x := range m {
					mm[k] = x
				}
				mm[n] = v
				next = append(next, mm)
			}
		}
		out = next
	}
	return out
}

func instName(m map[string]int64) string {
	var ks []string
	for k := range m {
		ks = append(ks, k)
	}
	sort.Strings(ks)
	var ps []string
	for _, k := range ks {
		ps = append(ps, fmt.Sprintf("%s=%d", k, m[k]))
	}
	return strings.Join(ps, ",")
}

// ContractUnits builds the verification units of one contract: one per
// combination of its enum parameters.
func (c *Ctx) ContractUnits(name string, mk func(u *UnitSpec)) []*vc.Unit {
	ct := c.Contract(name)
	var names []string
	var sets [][]int64
	for _, e := range ct.Enums {
		s, ok := c.Sets[e.Set]
		if !ok {
			panic(fmt.Sprintf("%s:%d: unknown enumeration set %s", ct.File, ct.Line, e.Set))
		}
		names = append(names, e.Var)
		sets = append(sets, s)
	}
	var units []*vc.Unit
	for _, inst := range product(names, sets) {
		us := &UnitSpec{Ctx: c, Name: name, Contract: ct, Enum: inst}
		if mk != nil {
			mk(us)
		}
		if us.Skip {
			continue
		}
		units = append(units, us.Unit())
	}
	return units
}

// UnitSpec describes how to verify one instance of a contract.
type UnitSpec struct {
	Ctx      *Ctx
	Name     string
	FuncName string // SSA function name if different from Name (instantiations)
	Contract *spec.Contract
	Enum     map[string]int64
	Skip     bool
	Bounded  string
	MaxPaths int
	Canary   bool
	// Inputs overrides/creates parameter values (by parameter name).
	Inputs func(p *sx.Path, ev *spec.Eval, fn *ssa.Function) map[string]sx.Val
	// Setup is called on the evaluator after inputs are bound.
	Setup func(p *sx.Path, ev *spec.Eval)
	Hooks func(m *sx.Machine)
	InstanceName string
	// Prepare runs concrete set-up code once; the exploration starts from
	// the heap it leaves behind.
	Prepare func(p *sx.Path)
	// CallHook replaces calls by callee contracts while this unit runs.
	CallHook func(p *sx.Path, fn *ssa.Function, args []sx.Val, site ssa.Instruction) (sx.Val, bool)
	Replay func(o *vc.Outcome) string
	// OnlyTags, when set, selects the ensures clauses (by tag) asserted by
	// this unit; the others belong to another property's check.
	OnlyTags func(tag string) bool
	// OnlyObl selects the obligations of this unit by name (see vc.Unit).
	OnlyObl func(name string) bool
	// AbstractArith: see vc.Unit.
	AbstractArith bool
}

// Unit builds the vc.Unit.
func (us *UnitSpec) Unit() *vc.Unit {
	c := us.Ctx
	fname := us.FuncName
	if fname == "" {
		fname = us.Name
	}
	fn := c.Func(fname)
	ct := us.Contract
	inst := instName(us.Enum)
	if us.InstanceName != "" {
		inst = us.InstanceName
	}
	u := &vc.Unit{Func: fname, Instance: inst, Bounded: us.Bounded, MaxPaths: us.MaxPaths, Canary: us.Canary, Replay: us.Replay, OnlyObl: us.OnlyObl, AbstractArith: us.AbstractArith}
	if u.MaxPaths == 0 {
		u.MaxPaths = 20000
	}
	u.Run = func(m *sx.Machine) ([]sx.PathResult, error) {
		var evalErr error
		base, baseNext := m.BaseHeap, m.BaseNext
		m = m.Clone() // units are explored in parallel: hooks are per unit
		m.CallHook = nil
		if us.Hooks != nil {
			us.Hooks(m)
		}
		if us.Prepare != nil {
			h, n, perr := m.Prepare(us.Prepare)
			if perr != nil {
				return nil, fmt.Errorf("set-up of %s failed: %v", fname, perr)
			}
			base, baseNext = h, n
		}
		m.CallHook = us.CallHook
		res, err := m.ExploreFrom(base, baseNext, u.MaxPaths, nil, func(p *sx.Path) sx.Val {
			defer func() {
				if r := recover(); r != nil {
					if ee, ok := r.(spec.EvalError); ok {
						evalErr = fmt.Errorf("%s:%d: %v", ct.File, ct.Line, ee)
						p.Stop("spec-error")
					}
					panic(r)
				}
			}()
			var pkg *types.Package
			if fn.Pkg != nil {
				pkg = fn.Pkg.Pkg
			}
			ev := c.NewEval(p, pkg)
			for k, v := range us.Enum {
				ev.Vars[k] = spec.TV{V: bigInt(v), T: nil}
			}
			// inputs
			var given map[string]sx.Val
			if us.Inputs != nil {
				given = us.Inputs(p, ev, fn)
			}
			args := make([]sx.Val, len(fn.Params))
			for i, prm := range fn.Params {
				var v sx.Val
				if g, ok := given[prm.Name()]; ok {
					v = g
				} else if ev0, ok := us.Enum[prm.Name()]; ok {
					v = smt.BVI(ev0, sx.SortOf(prm.Type()).W)
				} else if in, ok := ct.Opts["input:"+prm.Name()]; ok {
					ex, err := spec.ParseExpr(in)
					if err != nil {
						panic(spec.EvalError{Msg: err.Error()})
					}
					tv := ev.Eval(ex)
					v = c.coerceInput(p, prm.Name(), tv, prm.Type())
				} else {
					v = c.DefaultInput(p, prm.Name(), prm.Type())
				}
				args[i] = v
				if _, isEnum := us.Enum[prm.Name()]; !isEnum {
					ev.Vars[prm.Name()] = spec.TV{V: v, T: prm.Type()}
				}
			}
			if us.Setup != nil {
				us.Setup(p, ev)
			}
			for _, r := range ct.Requires {
				p.Assume(ev.Bool(r.Expr))
			}
			Snapshot(ev)
			p.Ghost["entryNext"] = p.Next
			if us.Canary {
				// vacuity canary: "ensures false" must fail
				p.Assert(fname+"/canary", "canary", smt.False, "", "vacuity canary (must fail)")
				return nil
			}
			// panics iff
			var panicsCond *smt.Term
			if ct.Panics != nil {
				panicsCond = ev.Bool(ct.Panics.Expr)
			}
			var result sx.Val
			panicked := false
			func() {
				defer func() {
					if r := recover(); r != nil {
						if pe, ok := sx.IsPathEnd(r); ok && pe == "panic" {
							panicked = true
							return
						}
						panic(r)
					}
				}()
				if panicsCond != nil {
					p.PanicAllowed = panicsCond
				}
				result = p.Call(fn, args, nil, nil)
				p.PanicAllowed = nil
			}()
			if panicked {
				p.Stop("panic")
			}
			if panicsCond != nil {
				p.Assert(fname+"/panics-iff", "post", smt.Not(panicsCond), fmt.Sprintf("%s:%d", relFile(ct.File), ct.Panics.Line), "returned normally although the contract demands a panic: "+ct.Panics.Text)
			}
			bindResult(ev, fn, result)
			for k, e := range ct.Ensures {
				tag := e.Tag
				if tag == "" {
					tag = fmt.Sprintf("%d", k+1)
				}
				if us.OnlyTags != nil && !us.OnlyTags(tag) {
					continue
				}
				delete(p.Ghost, "detail")
				goal := ev.Goal(e.Expr)
				note := "ensures " + e.Text
				if d, ok := p.Ghost["detail"].(string); ok && d != "" {
					note += " -- " + d
					delete(p.Ghost, "detail")
				}
				p.Assert(fmt.Sprintf("%s/ensures/%s", fname, tag), "post", goal, fmt.Sprintf("%s:%d", relFile(ct.File), e.Line), note)
			}
			return result
		})
		if evalErr != nil {
			return res, evalErr
		}
		return res, err
	}
	return u
}

func relFile(f string) string { return strings.TrimPrefix(f, "/repo/") }

func bindResult(ev *spec.Eval, fn *ssa.Function, result sx.Val) {
	rs := fn.Signature.Results()
	switch rs.Len() {
	case 0:
	case 1:
		ev.Vars["result"] = spec.TV{V: result, T: rs.At(0).Type()}
	default:
		t := result.(sx.Tuple)
		for i := 0; i < rs.Len(); i++ {
			ev.Vars[fmt.Sprintf("result%d", i)] = spec.TV{V: t[i], T: rs.At(i).Type()}
		}
	}
}

// DefaultInput creates an unconstrained input of a scalar type.
func (c *Ctx) DefaultInput(p *sx.Path, name string, t types.Type) sx.Val {
	switch u := t.Underlying().(type) {
	case *types.Basic:
		if u.Info()&types.IsInteger != 0 {
			return smt.Var("in."+name, sx.SortOf(t))
		}
		if u.Info()&types.IsBoolean != 0 {
			return smt.Var("in."+name, smt.Bool)
		}
	case *types.Struct:
		s := &sx.Struct{F: make([]sx.Val, u.NumFields())}
		for i := range s.F {
			s.F[i] = c.DefaultInput(p, name+"."+u.Field(i).Name(), u.Field(i).Type())
		}
		return s
	}
	panic(spec.EvalError{Msg: fmt.Sprintf("no default symbolic input for parameter %s of type %s: give an 'input:%s' line", name, t, name)})
}

// ShapeSpec is the value of the builtin shape(n1, n2, ...): an input of the
// parameter's type with symbolic scalar leaves, whose slices have the given
// concrete lengths (consumed in depth-first order; the last one repeats).
type ShapeSpec struct {
	Dims []int64
	Name string
}

// SymByType builds a value of type t with symbolic leaves.
func (c *Ctx) SymByType(p *sx.Path, name string, t types.Type, dims *[]int64) sx.Val {
	switch u := t.Underlying().(type) {
	case *types.Basic:
		if u.Info()&types.IsInteger != 0 {
			return smt.Var("in."+name, sx.SortOf(t))
		}
		if u.Info()&types.IsBoolean != 0 {
			return smt.Var("in."+name, smt.Bool)
		}
	case *types.Struct:
		s := &sx.Struct{F: make([]sx.Val, u.NumFields())}
		for i := range s.F {
			s.F[i] = c.SymByType(p, name+"."+u.Field(i).Name(), u.Field(i).Type(), dims)
		}
		return s
	case *types.Slice:
		n := int64(0)
		if len(*dims) > 0 {
			n = (*dims)[0]
			if len(*dims) > 1 {
				*dims = (*dims)[1:]
			}
		}
		if n < 0 {
			return sx.Slice{Off: smt.BVU(0, 64), Len: smt.BVU(0, 64), Cap: smt.BVU(0, 64)} // nil
		}
		els := make([]sx.Val, n)
		for i := range els {
			els[i] = c.SymByType(p, fmt.Sprintf("%s.%d", name, i), u.Elem(), dims)
		}
		if n == 0 {
			// an empty, non-nil slice
			return p.NewSlice(u.Elem(), nil)
		}
		return p.NewSlice(u.Elem(), els)
	case *types.Pointer:
		return sx.Ptr{Obj: p.Alloc(c.SymByType(p, name, u.Elem(), dims))}
	}
	panic(spec.EvalError{Msg: fmt.Sprintf("no symbolic input for %s of type %s", name, t)})
}

func (c *Ctx) coerceInput(p *sx.Path, name string, tv spec.TV, t types.Type) sx.Val {
	if sh, ok := tv.V.(ShapeSpec); ok {
		dims := append([]int64{}, sh.Dims...)
		return c.SymByType(p, name, t, &dims)
	}
	if tv.T == nil {
		if b, ok := tv.V.(interface{ Int64() int64 }); ok {
			return smt.BVI(b.Int64(), sx.SortOf(t).W)
		}
	}
	return tv.V
}

var _ = ast.NewIdent
