// Package spec implements the contract language: //@ blocks in the
// comment-only files contracts_verif.go of /repo, their expressions, and the
// evaluation of those expressions over symbolic states.
package spec

import (
	"fmt"
	"go/ast"
	"go/parser"
	"os"
	"path/filepath"
	"sort"
	"strings"
)

// Clause is one requires/ensures/invariant line.
type Clause struct {
	Kind string // requires | ensures | invariant | decreases | panics | assigns
	Text string
	Expr ast.Expr
	Line int
	File string
	Tag  string // optional label: "ensures[name] ..."
}

// Loop holds the clauses of one loop, keyed by ordinal.
type Loop struct {
	Ordinal int
	Inv     []*Clause
	Dec     *Clause
	Havoc   []string
}

// Contract is the contract of one function.
type Contract struct {
	Func     string // name as written: pkg-relative, e.g. "NewConstUint" or "(Const).WithWidth"
	Pkg      string // import path of the package of the file
	Requires []*Clause
	Ensures  []*Clause
	Panics   *Clause // "panics iff cond": the function panics exactly when cond
	Loops    map[int]*Loop
	Enums    []Enum
	Opts     map[string]string // free-form options: arith, inline, trusted, bound, ...
	File     string
	Line     int
}

// Enum is "enum x in SET": the contract is instantiated for every value.
type Enum struct {
	Var string
	Set string
}

// SpecFunc is "pure func name(params) = expr".
type SpecFunc struct {
	Name   string
	Params []string
	Body   ast.Expr
	Text   string
	Pkg    string
}

// File is a parsed contract file.
type File struct {
	Path      string
	Pkg       string
	Contracts []*Contract
	Funcs     []*SpecFunc
}

// LoadAll parses every contracts_verif.go below root. pkgPath maps a
// directory to its import path.
func LoadAll(root string, module string) ([]*File, error) {
	var files []*File
	err := filepath.Walk(root, func(path string, info os.FileInfo, err error) error {
		if err != nil {
			return err
		}
		if info.IsDir() && (info.Name() == ".git" || info.Name() == "vendor") {
			return filepath.SkipDir
		}
		if !info.IsDir() && strings.HasSuffix(info.Name(), "contracts_verif.go") {
			rel, _ := filepath.Rel(root, filepath.Dir(path))
			pkg := module
			if rel != "." {
				pkg = module + "/" + filepath.ToSlash(rel)
			}
			f, err := ParseFile(path, pkg)
			if err != nil {
				return err
			}
			files = append(files, f)
		}
		return nil
	})
	sort.Slice(files, func(i, j int) bool { return files[i].Path < files[j].Path })
	return files, err
}

// ParseFile reads the //@ lines of one file.
func ParseFile(path, pkg string) (*File, error) {
	data, err := os.ReadFile(path)
	if err != nil {
		return nil, err
	}
	f := &File{Path: path, Pkg: pkg}
	var cur *Contract
	var curLoop *Loop
	lines := strings.Split(string(data), "\n")
	for ln := 0; ln < len(lines); ln++ {
		raw := strings.TrimSpace(lines[ln])
		var body string
		switch {
		case strings.HasPrefix(raw, "//@"):
			body = strings.TrimSpace(raw[3:])
		case strings.HasPrefix(raw, "// @"):
			body = strings.TrimSpace(raw[4:])
		default:
			continue
		}
		startLine := ln + 1
		// continuation lines: "//@   ..." ending with a trailing backslash
		for strings.HasSuffix(body, "\\") && ln+1 < len(lines) {
			nx := strings.TrimSpace(lines[ln+1])
			if !strings.HasPrefix(nx, "//@") && !strings.HasPrefix(nx, "// @") {
				break
			}
			nx = strings.TrimSpace(strings.TrimPrefix(strings.TrimPrefix(nx, "//@"), "// @"))
			body = strings.TrimSuffix(body, "\\") + " " + nx
			ln++
		}
		if body == "" || strings.HasPrefix(body, "#") {
			continue
		}
		word, rest := splitWord(body)
		for _, kw := range []string{"ensures", "requires", "invariant"} {
			if strings.HasPrefix(word, kw+"[") {
				rest = word[len(kw):] + " " + rest
				word = kw
			}
		}
		known := map[string]bool{"arith": true, "inline": true, "trusted": true, "bound": true, "note": true, "modular": true, "havoc": true}
		if cur != nil && !known[word] && !strings.HasPrefix(word, "input:") {
			switch word {
			case "func", "pure", "requires", "ensures", "panics", "loop", "invariant", "decreases", "enum":
			default:
				return nil, fmt.Errorf("%s:%d: unknown contract directive %q", path, ln+1, word)
			}
		}
		mkClause := func(kind, text string) (*Clause, error) {
			tag := ""
			if strings.HasPrefix(text, "[") {
				if i := strings.Index(text, "]"); i > 0 {
					tag = text[1:i]
					text = strings.TrimSpace(text[i+1:])
				}
			}
			ex, err := ParseExpr(text)
			if err != nil {
				return nil, fmt.Errorf("%s:%d: %v\n   in: %s", path, startLine, err, text)
			}
			return &Clause{Kind: kind, Text: text, Expr: ex, Line: startLine, File: path, Tag: tag}, nil
		}
		switch word {
		case "func":
			cur = &Contract{Func: strings.TrimSpace(rest), Pkg: pkg, Loops: map[int]*Loop{}, Opts: map[string]string{}, File: path, Line: startLine}
			curLoop = nil
			f.Contracts = append(f.Contracts, cur)
		case "pure":
			// pure func name(a, b) = expr
			w2, r2 := splitWord(rest)
			if w2 != "func" {
				return nil, fmt.Errorf("%s:%d: expected 'pure func'", path, startLine)
			}
			eq := strings.Index(r2, "=")
			op, cp := strings.Index(r2, "("), strings.Index(r2, ")")
			if eq < 0 || op < 0 || cp < op || eq < cp {
				return nil, fmt.Errorf("%s:%d: malformed pure func", path, startLine)
			}
			name := strings.TrimSpace(r2[:op])
			var params []string
			for _, prm := range strings.Split(r2[op+1:cp], ",") {
				prm = strings.TrimSpace(prm)
				if prm == "" {
					continue
				}
				params = append(params, strings.Fields(prm)[0])
			}
			text := strings.TrimSpace(r2[eq+1:])
			ex, err := ParseExpr(text)
			if err != nil {
				return nil, fmt.Errorf("%s:%d: %v", path, startLine, err)
			}
			f.Funcs = append(f.Funcs, &SpecFunc{Name: name, Params: params, Body: ex, Text: text, Pkg: pkg})
			cur = nil
		case "requires", "ensures":
			if cur == nil {
				return nil, fmt.Errorf("%s:%d: clause outside a func block", path, startLine)
			}
			c, err := mkClause(word, rest)
			if err != nil {
				return nil, err
			}
			if word == "requires" {
				cur.Requires = append(cur.Requires, c)
			} else {
				cur.Ensures = append(cur.Ensures, c)
			}
		case "panics":
			if cur == nil {
				return nil, fmt.Errorf("%s:%d: clause outside a func block", path, startLine)
			}
			w2, r2 := splitWord(rest)
			if w2 != "iff" {
				return nil, fmt.Errorf("%s:%d: expected 'panics iff'", path, startLine)
			}
			c, err := mkClause("panics", r2)
			if err != nil {
				return nil, err
			}
			cur.Panics = c
		case "loop":
			if cur == nil {
				return nil, fmt.Errorf("%s:%d: loop outside a func block", path, startLine)
			}
			var n int
			fmt.Sscanf(strings.TrimSuffix(strings.TrimSpace(rest), ":"), "%d", &n)
			if n == 0 {
				return nil, fmt.Errorf("%s:%d: malformed loop ordinal", path, startLine)
			}
			curLoop = &Loop{Ordinal: n}
			cur.Loops[n] = curLoop
		case "invariant":
			if curLoop == nil {
				return nil, fmt.Errorf("%s:%d: invariant outside a loop block", path, startLine)
			}
			c, err := mkClause("invariant", rest)
			if err != nil {
				return nil, err
			}
			curLoop.Inv = append(curLoop.Inv, c)
		case "decreases":
			if curLoop == nil {
				return nil, fmt.Errorf("%s:%d: decreases outside a loop block", path, startLine)
			}
			c, err := mkClause("decreases", rest)
			if err != nil {
				return nil, err
			}
			curLoop.Dec = c
		case "enum":
			if cur == nil {
				return nil, fmt.Errorf("%s:%d: enum outside a func block", path, startLine)
			}
			for _, part := range strings.Split(rest, ",") {
				fs := strings.Fields(part)
				if len(fs) != 3 || fs[1] != "in" {
					return nil, fmt.Errorf("%s:%d: malformed enum", path, startLine)
				}
				cur.Enums = append(cur.Enums, Enum{Var: fs[0], Set: fs[2]})
			}
		default:
			// option line: "key value..."
			if cur == nil {
				return nil, fmt.Errorf("%s:%d: unknown directive %q", path, startLine, word)
			}
			cur.Opts[word] = strings.TrimSpace(rest)
		}
	}
	return f, nil
}

func splitWord(s string) (string, string) {
	s = strings.TrimSpace(s)
	i := strings.IndexAny(s, " \t")
	if i < 0 {
		return s, ""
	}
	return s[:i], strings.TrimSpace(s[i+1:])
}

// ParseExpr parses a specification expression: Go expression syntax plus
// "A ==> B", "forall x T, y U :: P", "exists x T :: P".
func ParseExpr(s string) (ast.Expr, error) {
	r, err := rewrite(s)
	if err != nil {
		return nil, err
	}
	ex, err := parser.ParseExpr(r)
	if err != nil {
		return nil, fmt.Errorf("%v (after rewriting to %q)", err, r)
	}
	return ex, nil
}

func rewrite(s string) (string, error) {
	s = strings.TrimSpace(s)
	for _, q := range []string{"forall", "exists"} {
		if strings.HasPrefix(s, q+" ") {
			i := topLevel(s, "::")
			if i < 0 {
				return "", fmt.Errorf("quantifier without '::' in %q", s)
			}
			binders := strings.TrimSpace(s[len(q):i])
			body, err := rewrite(s[i+2:])
			if err != nil {
				return "", err
			}
			return fmt.Sprintf("%s_(func(%s) bool { return %s })", q, binders, body), nil
		}
	}
	// a quantifier after && or || extends to the end of the group; it binds
	// before an implication that follows it
	qpos, qop := -1, ""
	for _, op := range []string{"&&", "||"} {
		for _, q := range []string{"forall ", "exists "} {
			if i := topLevel(s, op+" "+q); i >= 0 && (qpos < 0 || i < qpos) {
				qpos, qop = i, op
			}
		}
	}
	ipos := topLevel(s, "==>")
	if qpos >= 0 && (ipos < 0 || qpos < ipos) {
		l, err := rewrite(s[:qpos])
		if err != nil {
			return "", err
		}
		r, err := rewrite(s[qpos+len(qop):])
		if err != nil {
			return "", err
		}
		return fmt.Sprintf("(%s) %s (%s)", l, qop, r), nil
	}
	if ipos >= 0 {
		l, err := rewrite(s[:ipos])
		if err != nil {
			return "", err
		}
		r, err := rewrite(s[ipos+3:])
		if err != nil {
			return "", err
		}
		return fmt.Sprintf("implies_(%s, %s)", l, r), nil
	}
	// recurse into bracketed groups
	var sb strings.Builder
	for i := 0; i < len(s); i++ {
		c := s[i]
		if c == '"' || c == '\'' || c == '`' {
			j := i + 1
			for j < len(s) && s[j] != c {
				if s[j] == '\\' && c != '`' {
					j++
				}
				j++
			}
			if j >= len(s) {
				return "", fmt.Errorf("unterminated literal in %q", s)
			}
			sb.WriteString(s[i : j+1])
			i = j
			continue
		}
		if c == '(' || c == '[' {
			j := matching(s, i)
			if j < 0 {
				return "", fmt.Errorf("unbalanced %q in %q", string(c), s)
			}
			inner := s[i+1 : j]
			parts := splitTop(inner, ',')
			sb.WriteByte(c)
			for k, part := range parts {
				if k > 0 {
					sb.WriteString(", ")
				}
				if strings.TrimSpace(part) == "" {
					continue
				}
				// slices "a:b" inside [] keep their colons
				if c == '[' {
					cp := splitTop(part, ':')
					for m, q := range cp {
						if m > 0 {
							sb.WriteString(":")
						}
						if strings.TrimSpace(q) == "" {
							continue
						}
						r, err := rewrite(q)
						if err != nil {
							return "", err
						}
						sb.WriteString(r)
					}
					continue
				}
				r, err := rewrite(part)
				if err != nil {
					return "", err
				}
				sb.WriteString(r)
			}
			sb.WriteByte(s[j])
			i = j
			continue
		}
		sb.WriteByte(c)
	}
	return sb.String(), nil
}

func matching(s string, i int) int {
	depth := 0
	for j := i; j < len(s); j++ {
		switch s[j] {
		case '(', '[', '{':
			depth++
		case ')', ']', '}':
			depth--
			if depth == 0 {
				return j
			}
		case '"', '\'', '`':
			q := s[j]
			j++
			for j < len(s) && s[j] != q {
				if s[j] == '\\' && q != '`' {
					j++
				}
				j++
			}
		}
	}
	return -1
}

// topLevel finds the first occurrence of tok at bracket depth 0.
func topLevel(s, tok string) int {
	depth := 0
	for i := 0; i < len(s); i++ {
		switch s[i] {
		case '(', '[', '{':
			depth++
		case ')', ']', '}':
			depth--
		case '"', '\'', '`':
			q := s[i]
			i++
			for i < len(s) && s[i] != q {
				if s[i] == '\\' && q != '`' {
					i++
				}
				i++
			}
			continue
		}
		if depth == 0 && strings.HasPrefix(s[i:], tok) {
			// "::" must not match inside ":::"; "==>" is unambiguous
			return i
		}
	}
	return -1
}

func splitTop(s string, sep byte) []string {
	var out []string
	depth := 0
	last := 0
	for i := 0; i < len(s); i++ {
		switch s[i] {
		case '(', '[', '{':
			depth++
		case ')', ']', '}':
			depth--
		case '"', '\'', '`':
			q := s[i]
			i++
			for i < len(s) && s[i] != q {
				if s[i] == '\\' && q != '`' {
					i++
				}
				i++
			}
			continue
		}
		if depth == 0 && s[i] == sep {
			// do not split "::" when sep is ':'
			out = append(out, s[last:i])
			last = i + 1
		}
	}
	out = append(out, s[last:])
	return out
}
