package props

import (
	"fmt"
	"strings"

	"gocv/vc"
)

var templateSrcByName = map[string]string{
	"addi x1,x1,1":        `fx(rs(bin(r("x1"), c(1)), "x1"))`,
	"mv x2,x1":            `fx(rs(r("x1"), "x2"))`,
	"li x1,5":             `fx(rs(c(5), "x1"))`,
	"li x2,7":             `fx(rs(c(7), "x2"))`,
	"sd x2,0(x1)":         `fx(ms(r("x2"), "m", r("x1"), 8))`,
	"ld x1,0(x2)":         `fx(rs(ml("m", r("x2"), 8), "x1"))`,
	"fence":               `nil`,
	"ecall":               `nil`,
	"auipc x2":            `fx(rs(c(a+0x1000), "x2"))`,
	"jal x1,+4":           `fx(rs(c(a+4), "x1"), rs(c(a+4), expr.IPKey))`,
	"jal x2,+4":           `fx(rs(c(a+4), "x2"), rs(c(a+4), expr.IPKey))`,
	"add x1,x1,x2":        `fx(rs(bin(r("x1"), r("x2")), "x1"))`,
	"nop":                 `nil`,
	"csrrw x2,c1,x0":      `fx(rs(r("csr1"), "x2"))`,
	"sw x1,m2":            `fx(ms(r("x1"), "m2", c(0x100), 4))`,
	"lw x2,0(x1)":         `fx(rs(ml("m", r("x1"), 4), "x2"))`,
	"sd x1,8(x2)":         `fx(ms(r("x1"), "m", bin(r("x2"), c(8)), 8))`,
	"amoadd.d x1,x1,(x1)": `fx(rs(ml("m", r("x1"), 8), "x1"), ms(bin(ml("m", r("x1"), 8), r("x1")), "m", r("x1"), 8))`,
	"bgeu x1,x2,T":        `fx(rs(expr.NewLess(r("x1"), r("x2"), c(a+4), c(t), 8), expr.IPKey))`,
	"bltu x1,x2,T":        `fx(rs(expr.NewLess(r("x1"), r("x2"), c(t), c(a+4), 8), expr.IPKey))`,
	"jr x1":               `fx(rs(r("x1"), expr.IPKey))`,
	"j T":                 `fx(rs(c(t), expr.IPKey))`,
}

// templateSrc returns the Go source building the effects of template t.
func templateSrc(t int) string {
	s, ok := templateSrcByName[insAlphabet()[t].Name]
	if !ok {
		panic("no replay source for template " + insAlphabet()[t].Name)
	}
	return s
}

// blockReplay: the block and the move history of the failing arrangement are
// rebuilt with the real NewCode and Move; both orders are executed by the
// real emulator from the register values of the model (memory: a fixed
// pseudo-random content) and the final states are compared.
func (c *Ctx) blockReplay(seq blockSeq, moves func() [][2]int) func(o *vc.Outcome) string {
	return func(o *vc.Outcome) string {
		al := insAlphabet()
		var ins []string
		addr := uint64(blockBase)
		for i, t := range seq {
			ins = append(ins, fmt.Sprintf("\t\tmk(0x%x, %d, %d, func(a, t uint64) []expr.Effect { return %s }),", addr, al[t].length(), al[t].Type, templateSrc(t)))
			addr += uint64(al[t].length())
			_ = i
		}
		var mv []string
		for _, m := range moves() {
			mv = append(mv, fmt.Sprintf("{%d, %d}", m[0], m[1]))
		}
		regs := ""
		for _, k := range []string{"x1", "x2", "csr1"} {
			regs += fmt.Sprintf("\t\t%q: 0x%x,\n", k, modelBig(o, "r0."+k))
		}
		src := `package emulator

import (
	"bytes"
	"fmt"
	"sort"
	"testing"

	"mltwist/internal/deps"
	"mltwist/internal/parser"
	"mltwist/internal/state"
	"mltwist/pkg/expr"
	"mltwist/pkg/model"
)

type gocvDetails struct{}

func (gocvDetails) Name() string   { return "t" }
func (gocvDetails) String() string { return "t" }

type gocvProv struct{ regs map[string]uint64 }

func (p gocvProv) Register(key expr.Key, w expr.Width) expr.Const {
	return expr.NewConstUint(p.regs[string(key)], 8).WithWidth(w)
}
func (p gocvProv) Memory(key expr.Key, addr model.Addr, w expr.Width) expr.Const {
	bs := make([]byte, w)
	for i := range bs {
		x := uint64(addr) + uint64(i)
		bs[i] = byte(x*7 + x>>8*13 + uint64(len(key)))
	}
	return expr.NewConst(bs, w)
}

` + irHelpersSrc + `
func gocvSeq() []parser.Instruction {
	return []parser.Instruction{
` + strings.Join(ins, "\n") + `
	}
}

func gocvRun(t *testing.T, moves [][2]int) string {
	code, err := deps.NewCode(gocvBase, gocvSeq())
	if err != nil {
		t.Fatalf("NewCode: %v", err)
	}
	if code.Len() != 1 {
		t.Fatalf("%d blocks", code.Len())
	}
	for _, m := range moves {
		if err := code.Index(0).Move(m[0], m[1]); err != nil {
			t.Fatalf("Move(%d, %d) rejected on the real code: %v", m[0], m[1], err)
		}
	}
	st := state.New()
	e := New(code, gocvBase, gocvProv{map[string]uint64{
` + regs + `	}}, st)
	for steps := 0; steps < 40; steps++ {
		if _, err := e.Step(); err != nil {
			break
		}
	}
	var out []string
	for k, v := range st.Regs.Values() {
		out = append(out, fmt.Sprintf("%s=%x", k, v.(expr.Const).Bytes()))
	}
	for k, m := range st.Mems {
		for _, iv := range m.Blocks().Intervals() {
			for a := iv.Begin(); a < iv.End(); a++ {
				v, _ := m.Load(a, 1)
				var b bytes.Buffer
				fmt.Fprintf(&b, "%s[%x]=%v", k, a, v)
				out = append(out, b.String())
			}
		}
	}
	sort.Strings(out)
	return fmt.Sprint(out)
}

func TestGocvReplay(t *testing.T) {
	orig := gocvRun(t, nil)
	moved := gocvRun(t, [][2]int{` + strings.Join(mv, ", ") + `})
	if orig != moved {
		t.Fatalf("the accepted moves change the behaviour of the block:\n original order: %s\n after moves:    %s", orig, moved)
	}
}
`
		return replayVerdict(c.P.RepoDir, "internal/emulator", src)
	}
}

// irHelpersSrc: helpers of the generated tests that build lifted instructions.
const irHelpersSrc = `const gocvBase = 0x1000

func r(k string) expr.Expr                  { return expr.NewRegLoad(expr.Key(k), 8) }
func c(v uint64) expr.Expr                  { return expr.NewConstUint(v, 8) }
func bin(x, y expr.Expr) expr.Expr          { return expr.NewBinary(expr.Add, x, y, 8) }
func ml(k string, a expr.Expr, w expr.Width) expr.Expr { return expr.NewMemLoad(expr.Key(k), a, w) }
func rs(v expr.Expr, k expr.Key) expr.Effect { return expr.NewRegStore(v, k, 8) }
func ms(v expr.Expr, k string, a expr.Expr, w expr.Width) expr.Effect {
	return expr.NewMemStore(v, expr.Key(k), a, w)
}
func fx(es ...expr.Effect) []expr.Effect { return es }

func mk(a uint64, n int, typ uint64, f func(a, t uint64) []expr.Effect) parser.Instruction {
	return parser.Instruction{Type: model.Type(typ), Addr: model.Addr(a), Bytes: []byte{0x10, 0x11, 0x12, 0x13}[:n], Effects: f(a, gocvBase), Details: gocvDetails{}}
}

`
