// Package sx is a path-forking symbolic executor for go/ssa. Heap shapes are
// concrete (objects, slices lengths, map key sets are enumerated by the
// harness or built by the code itself); scalars are SMT terms with the exact
// Go bit-width semantics. Arrays may additionally be symbolic (SMT arrays with
// symbolic length) for code verified with loop invariants.
package sx

import (
	"os"
	"runtime"
	"fmt"
	"go/types"
	"math/big"
	"strings"

	"gocv/smt"

	"golang.org/x/tools/go/ssa"
)

// Val is a value of the interpreted program. All values are immutable.
type Val interface{}

// Str is a Go string: concrete, an injective format of symbolic integers
// (fmt.Sprintf("x%d", n)), or a symbolic byte array with symbolic length.
type Str struct {
	S    string
	Fmt  string      // non-empty: symbolic formatted string
	Args []*smt.Term // arguments of Fmt
	Arr  *smt.Term   // non-nil: symbolic string (Array BV64 BV8)
	Len  *smt.Term
	// Bs non-nil: a string of concrete length whose bytes are terms (BV8);
	// kept normalised: a string whose bytes are all constants is concrete.
	Bs []*smt.Term
}

func (s Str) Concrete() bool { return s.Fmt == "" && s.Arr == nil && s.Bs == nil }

// MkBytesStr builds a string from byte terms.
func MkBytesStr(bs []*smt.Term) Str {
	all := true
	for _, b := range bs {
		if _, ok := b.Uint64(); !ok {
			all = false
			break
		}
	}
	if all {
		raw := make([]byte, len(bs))
		for i, b := range bs {
			k, _ := b.Uint64()
			raw[i] = byte(k)
		}
		return Str{S: string(raw)}
	}
	return Str{Bs: append([]*smt.Term{}, bs...)}
}

// byteTerms returns the bytes of a concrete or byte-term string.
func (s Str) byteTerms() ([]*smt.Term, bool) {
	if s.Bs != nil {
		return s.Bs, true
	}
	if s.Concrete() {
		out := make([]*smt.Term, len(s.S))
		for i := 0; i < len(s.S); i++ {
			out[i] = smt.BVU(uint64(s.S[i]), 8)
		}
		return out, true
	}
	return nil, false
}

// ByteTerms is byteTerms for other packages.
func (s Str) ByteTerms() ([]*smt.Term, bool) { return s.byteTerms() }

// PathElem addresses a component of a heap value.
type PathElem struct {
	Field int       // struct field, when Idx == nil
	Idx   *smt.Term // array element
}

// Ptr is a pointer: Obj == 0 is nil.
type Ptr struct {
	Obj  int
	Path []PathElem
	// Fn is set for pointers to functions' synthetic cells (unused).
}

// Slice header. Obj == 0 is the nil slice.
type Slice struct {
	Obj           int
	Off, Len, Cap *smt.Term // BV64
}

// Struct is a struct value.
type Struct struct{ F []Val }

// Arr is an array value / the backing store of slices.
type Arr struct {
	Elems []Val
	// Symbolic representation (Elems == nil): one SMT array per scalar
	// leaf of the element type, indexed by BV64.
	Sym   []*smt.Term
	ElemT types.Type
}

// Iface is an interface value; T == nil is the nil interface.
type Iface struct {
	T types.Type
	V Val
}

// MapRef references a map object; Obj == 0 is the nil map.
type MapRef struct{ Obj int }

// MapVal is the heap content of a map: an association list.
type MapVal struct {
	Keys []Val
	Vals []Val
	// Present[i] is the condition under which entry i exists (nil = true).
	Present []*smt.Term
}

// Closure is a function value. A nil *Closure is the nil func.
type Closure struct {
	Fn      *ssa.Function
	Bind    []Val
	Builtin func(p *Path, args []Val) Val
	Name    string
	// Recv is set for bound-method closures of interface methods.
}

// Tuple is a multi-value result.
type Tuple []Val

// Float is a concrete floating point value.
type Float struct{ F float64 }

// Opaque wraps a host Go value (e.g. *big.Int) manipulated by intrinsics.
type Opaque struct {
	Kind string
	V    interface{}
}

// Iter is a range iterator.
type Iter struct {
	Obj int // heap cell with the position
}

type iterState struct {
	Keys []Val
	Vals []Val
	Str  string
	Bs   []*smt.Term
	IsS  bool
	Pos  int
}

func isInt(t types.Type) (bits int, signed bool, ok bool) {
	b, ok := t.Underlying().(*types.Basic)
	if !ok {
		return 0, false, false
	}
	switch b.Kind() {
	case types.Int8:
		return 8, true, true
	case types.Int16:
		return 16, true, true
	case types.Int32, types.UntypedRune:
		return 32, true, true
	case types.Int64, types.Int, types.UntypedInt:
		return 64, true, true
	case types.Uint8:
		return 8, false, true
	case types.Uint16:
		return 16, false, true
	case types.Uint32:
		return 32, false, true
	case types.Uint64, types.Uint, types.Uintptr:
		return 64, false, true
	}
	return 0, false, false
}

func isBool(t types.Type) bool {
	b, ok := t.Underlying().(*types.Basic)
	return ok && (b.Kind() == types.Bool || b.Kind() == types.UntypedBool)
}

func isString(t types.Type) bool {
	b, ok := t.Underlying().(*types.Basic)
	return ok && (b.Kind() == types.String || b.Kind() == types.UntypedString)
}

func isFloat(t types.Type) bool {
	b, ok := t.Underlying().(*types.Basic)
	return ok && (b.Kind() == types.Float64 || b.Kind() == types.Float32 || b.Kind() == types.UntypedFloat)
}

// Zero returns the zero value of t.
func Zero(t types.Type) Val {
	switch u := t.Underlying().(type) {
	case *types.Basic:
		if w, _, ok := isInt(t); ok {
			return smt.BVU(0, w)
		}
		if isBool(t) {
			return smt.False
		}
		if isString(t) {
			return Str{}
		}
		if isFloat(t) {
			return Float{0}
		}
		if u.Kind() == types.UnsafePointer {
			return Ptr{}
		}
		if u.Kind() == types.UntypedNil {
			return Ptr{}
		}
	case *types.Pointer:
		return Ptr{}
	case *types.Slice:
		return Slice{Off: i64(0), Len: i64(0), Cap: i64(0)}
	case *types.Map:
		return MapRef{}
	case *types.Signature:
		return (*Closure)(nil)
	case *types.Interface:
		return Iface{}
	case *types.Struct:
		s := &Struct{F: make([]Val, u.NumFields())}
		for i := range s.F {
			func() {
				defer func() {
					if r := recover(); r != nil {
						if e, ok := r.(Unsupported); ok {
							panic(unsupported(e.Msg + " (field " + u.Field(i).Name() + " of " + t.String() + ")"))
						}
						panic(r)
					}
				}()
				s.F[i] = Zero(u.Field(i).Type())
			}()
		}
		return s
	case *types.Array:
		a := &Arr{Elems: make([]Val, u.Len()), ElemT: u.Elem()}
		for i := range a.Elems {
			a.Elems[i] = Zero(u.Elem())
		}
		return a
	case *types.Tuple:
		tp := make(Tuple, u.Len())
		for i := range tp {
			tp[i] = Zero(u.At(i).Type())
		}
		return tp
	case *types.Chan:
		return Ptr{}
	}
	panic(unsupported("zero value of " + t.String()))
}

func i64(v int64) *smt.Term { return smt.BVI(v, 64) }

// Unsupported is raised for constructs outside the modelled subset.
type Unsupported struct{ Msg string }

func (u Unsupported) Error() string { return "unsupported: " + u.Msg }
func unsupported(s string) Unsupported {
	if debugStack {
		buf := make([]byte, 1<<13)
		n := runtime.Stack(buf, false)
		s += "\n" + string(buf[:n])
	}
	return Unsupported{s}
}

var debugStack = os.Getenv("GOCV_DEBUGSTACK") != ""

// ConstInt returns the concrete value of a scalar term.
func ConstInt(v Val) (int64, bool) {
	t, ok := v.(*smt.Term)
	if !ok || t.Op != "bvconst" {
		return 0, false
	}
	if t.S.W <= 64 {
		return int64(t.C.Uint64()), true
	}
	return 0, false
}

func ConstBig(v Val) (*big.Int, bool) {
	t, ok := v.(*smt.Term)
	if !ok || t.Op != "bvconst" {
		return nil, false
	}
	return t.C, true
}

// Show renders a value for diagnostics.
func Show(v Val) string {
	switch x := v.(type) {
	case nil:
		return "<nil>"
	case *smt.Term:
		s := x.String()
		if len(s) > 60 {
			s = s[:60] + "…"
		}
		return s
	case Str:
		if x.Concrete() {
			return fmt.Sprintf("%q", x.S)
		}
		if x.Fmt != "" {
			return fmt.Sprintf("fmt(%q,%d args)", x.Fmt, len(x.Args))
		}
		return "symstr"
	case Ptr:
		return fmt.Sprintf("ptr(%d,%v)", x.Obj, len(x.Path))
	case Slice:
		return fmt.Sprintf("slice(%d,len=%s)", x.Obj, Show(x.Len))
	case *Struct:
		var p []string
		for _, f := range x.F {
			p = append(p, Show(f))
		}
		return "{" + strings.Join(p, ",") + "}"
	case Iface:
		if x.T == nil {
			return "nil-iface"
		}
		return "iface(" + x.T.String() + ":" + Show(x.V) + ")"
	case Tuple:
		var p []string
		for _, f := range x {
			p = append(p, Show(f))
		}
		return "(" + strings.Join(p, ",") + ")"
	}
	return fmt.Sprintf("%T", v)
}

// SameVal is identity of symbolic values: same terms, same references, same
// structure. It never inspects term structure (terms are hash-consed).
func SameVal(a, b Val) bool {
	switch x := a.(type) {
	case nil:
		return b == nil
	case *smt.Term:
		y, ok := b.(*smt.Term)
		return ok && x == y
	case Str:
		y, ok := b.(Str)
		if !ok || x.S != y.S || x.Fmt != y.Fmt || x.Arr != y.Arr || x.Len != y.Len || len(x.Args) != len(y.Args) || len(x.Bs) != len(y.Bs) {
			return false
		}
		for i := range x.Bs {
			if x.Bs[i] != y.Bs[i] {
				return false
			}
		}
		for i := range x.Args {
			if x.Args[i] != y.Args[i] {
				return false
			}
		}
		return true
	case Ptr:
		y, ok := b.(Ptr)
		if !ok || x.Obj != y.Obj || len(x.Path) != len(y.Path) {
			return false
		}
		for i := range x.Path {
			if x.Path[i] != y.Path[i] {
				return false
			}
		}
		return true
	case Slice:
		y, ok := b.(Slice)
		return ok && x == y
	case *Struct:
		y, ok := b.(*Struct)
		if !ok {
			return false
		}
		if x == y {
			return true
		}
		if len(x.F) != len(y.F) {
			return false
		}
		for i := range x.F {
			if !SameVal(x.F[i], y.F[i]) {
				return false
			}
		}
		return true
	case *Arr:
		y, ok := b.(*Arr)
		if !ok {
			return false
		}
		if x == y {
			return true
		}
		if len(x.Elems) != len(y.Elems) || len(x.Sym) != len(y.Sym) || (x.Elems == nil) != (y.Elems == nil) {
			return false
		}
		for i := range x.Elems {
			if !SameVal(x.Elems[i], y.Elems[i]) {
				return false
			}
		}
		for i := range x.Sym {
			if x.Sym[i] != y.Sym[i] {
				return false
			}
		}
		return true
	case Iface:
		y, ok := b.(Iface)
		if !ok {
			return false
		}
		if (x.T == nil) != (y.T == nil) {
			return false
		}
		if x.T == nil {
			return true
		}
		return types.Identical(x.T, y.T) && SameVal(x.V, y.V)
	case MapRef:
		y, ok := b.(MapRef)
		return ok && x == y
	case *MapVal:
		y, ok := b.(*MapVal)
		if !ok {
			return false
		}
		if x == y {
			return true
		}
		if len(x.Keys) != len(y.Keys) {
			return false
		}
		for i := range x.Keys {
			if !SameVal(x.Keys[i], y.Keys[i]) || !SameVal(x.Vals[i], y.Vals[i]) {
				return false
			}
			var px, py *smt.Term
			if x.Present != nil {
				px = x.Present[i]
			}
			if y.Present != nil {
				py = y.Present[i]
			}
			if px != py {
				return false
			}
		}
		return true
	case *Closure:
		y, ok := b.(*Closure)
		return ok && x == y
	case Tuple:
		y, ok := b.(Tuple)
		if !ok || len(x) != len(y) {
			return false
		}
		for i := range x {
			if !SameVal(x[i], y[i]) {
				return false
			}
		}
		return true
	case Float:
		y, ok := b.(Float)
		return ok && x == y
	}
	// other kinds (iterators, opaque host values): identical only if the
	// very same value
	defer func() { recover() }()
	return a == b
}
