package main

import (
	"fmt"
	"golang.org/x/tools/go/packages"
	"golang.org/x/tools/go/ssa"
	"golang.org/x/tools/go/ssa/ssautil"
)

func main() {
	cfg := &packages.Config{Mode: packages.LoadAllSyntax, Dir: "/repo", BuildFlags: []string{"-tags=verif"}}
	pkgs, err := packages.Load(cfg, "./...")
	if err != nil {
		panic(err)
	}
	prog, _ := ssautil.AllPackages(pkgs, ssa.InstantiateGenerics|ssa.BareInits)
	prog.Build()
	fmt.Println(len(pkgs))
}
