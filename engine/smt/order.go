package smt

import "math/big"

// OrderAbstract translates a query whose bit-vector terms are only variables,
// constants and if-then-else, compared by unsigned <, <= and =, into an
// equivalent query over Int (each variable v of width w becomes an integer
// with 0 <= v < 2^w; unsigned comparison of bit-vectors is comparison of
// these integers). For this fragment the translation is exact, and linear
// integer arithmetic decides in milliseconds what bit-blasting 64-bit
// comparators needs seconds for. ok is false when the query is outside the
// fragment. back maps the Int variables to the original bit-vector variables.
func OrderAbstract(q *Query) (nq *Query, back map[int]*Term, ok bool) {
	back = map[int]*Term{}
	cache := map[int]*Term{}
	bounds := map[int]*Term{}
	var ivars []*Term
	ok = true
	var tr func(t *Term) *Term
	tr = func(t *Term) *Term {
		if !ok {
			return nil
		}
		if r, done := cache[t.ID]; done {
			return r
		}
		var r *Term
		switch t.Op {
		case "true", "false":
			r = t
		case "var":
			switch t.S.K {
			case KBool:
				r = t
			case KBV:
				r = Var(t.Name+"!int", Int)
				back[r.ID] = t
				ivars = append(ivars, r)
				lim := new(big.Int).Lsh(big.NewInt(1), uint(t.S.W))
				bounds[r.ID] = And(ILe(IntC(0), r), ILt(r, IntBig(lim)))
			default:
				ok = false
			}
		case "bvconst":
			r = IntBig(t.C)
		case "not":
			if a := tr(t.Args[0]); ok {
				r = Not(a)
			}
		case "and", "or":
			as := make([]*Term, len(t.Args))
			for i, a := range t.Args {
				as[i] = tr(a)
			}
			if ok {
				if t.Op == "and" {
					r = And(as...)
				} else {
					r = Or(as...)
				}
			}
		case "=>":
			a, b := tr(t.Args[0]), tr(t.Args[1])
			if ok {
				r = Implies(a, b)
			}
		case "ite":
			c, a, b := tr(t.Args[0]), tr(t.Args[1]), tr(t.Args[2])
			if ok {
				r = Ite(c, a, b)
			}
		case "=":
			a, b := tr(t.Args[0]), tr(t.Args[1])
			if ok {
				r = Eq(a, b)
			}
		case "bvult":
			a, b := tr(t.Args[0]), tr(t.Args[1])
			if ok {
				r = ILt(a, b)
			}
		case "bvule":
			a, b := tr(t.Args[0]), tr(t.Args[1])
			if ok {
				r = ILe(a, b)
			}
		default:
			ok = false
		}
		cache[t.ID] = r
		return r
	}
	nq = &Query{Name: q.Name, PreDecl: q.PreDecl, Prelude: q.Prelude}
	for _, h := range q.Hyps {
		nq.Hyps = append(nq.Hyps, tr(h))
	}
	if q.Goal != nil {
		nq.Goal = tr(q.Goal)
	}
	if !ok {
		return nil, nil, false
	}
	for _, b := range bounds {
		nq.Hyps = append(nq.Hyps, b)
	}
	nq.Values = append(nq.Values, ivars...)
	for _, v := range q.Values {
		if v.S.K == KBool {
			nq.Values = append(nq.Values, v)
		}
	}
	return nq, back, true
}
