package sx

import (
	"gocv/smt"
)

// A small, sound-for-unsat decision procedure for conjunctions of order
// literals (unsigned or signed <, <=, ==, != between terms treated as opaque
// atoms, and constants). It is used to drop branches whose path condition is
// certainly contradictory; when it cannot tell, the branch is kept (the
// obligations of an infeasible path are vacuously valid, so keeping it is
// always sound, only slower).

type ordGraph struct {
	n      int
	idx    map[int]int // term ID -> node
	terms  []*smt.Term
	le     [][]bool // le[a][b]: a <= b known
	lt     [][]bool // lt[a][b]: a <  b known
	ne     [][2]int
	signed bool
}

func newOrd(signed bool) *ordGraph { return &ordGraph{idx: map[int]int{}, signed: signed} }

func (g *ordGraph) node(t *smt.Term) int {
	if i, ok := g.idx[t.ID]; ok {
		return i
	}
	i := g.n
	g.n++
	g.idx[t.ID] = i
	g.terms = append(g.terms, t)
	for k := range g.le {
		g.le[k] = append(g.le[k], false)
		g.lt[k] = append(g.lt[k], false)
	}
	g.le = append(g.le, make([]bool, g.n))
	g.lt = append(g.lt, make([]bool, g.n))
	g.le[i][i] = true
	return i
}

func (g *ordGraph) addLe(a, b *smt.Term) { x, y := g.node(a), g.node(b); g.le[x][y] = true }
func (g *ordGraph) addLt(a, b *smt.Term) {
	x, y := g.node(a), g.node(b)
	g.lt[x][y] = true
	g.le[x][y] = true
}

func cmpConst(a, b *smt.Term, signed bool) int {
	if !signed {
		return a.C.Cmp(b.C)
	}
	sa, sb := a.C.Bit(a.S.W-1), b.C.Bit(b.S.W-1)
	if sa != sb {
		if sa == 1 {
			return -1
		}
		return 1
	}
	return a.C.Cmp(b.C)
}

// unsat reports whether the collected literals are certainly contradictory.
func (g *ordGraph) unsat() bool {
	// relations between constants, and 0 <= x for unsigned atoms
	for i := 0; i < g.n; i++ {
		for j := 0; j < g.n; j++ {
			if i == j {
				continue
			}
			a, b := g.terms[i], g.terms[j]
			if a.S != b.S {
				continue
			}
			if a.Op == "bvconst" && b.Op == "bvconst" {
				c := cmpConst(a, b, g.signed)
				if c < 0 {
					g.lt[i][j], g.le[i][j] = true, true
				}
			}
			if !g.signed && a.Op == "bvconst" && a.C.Sign() == 0 {
				g.le[i][j] = true
			}
		}
	}
	// transitive closure (Floyd–Warshall on <=, tracking strictness)
	for k := 0; k < g.n; k++ {
		for i := 0; i < g.n; i++ {
			if !g.le[i][k] {
				continue
			}
			for j := 0; j < g.n; j++ {
				if g.le[k][j] {
					g.le[i][j] = true
					if g.lt[i][k] || g.lt[k][j] {
						g.lt[i][j] = true
					}
				}
			}
		}
	}
	for i := 0; i < g.n; i++ {
		if g.lt[i][i] {
			return true
		}
	}
	for _, p := range g.ne {
		if g.le[p[0]][p[1]] && g.le[p[1]][p[0]] {
			return true // forced equal but asserted different
		}
	}
	return false
}

// OrderUnsat checks the conjunction of literals; true means certainly
// contradictory.
func OrderUnsat(lits []*smt.Term) bool {
	u, s := newOrd(false), newOrd(true)
	var add func(l *smt.Term, neg bool)
	add = func(l *smt.Term, neg bool) {
		switch l.Op {
		case "not":
			add(l.Args[0], !neg)
		case "and":
			if !neg {
				for _, a := range l.Args {
					add(a, false)
				}
			}
		case "or":
			if neg {
				for _, a := range l.Args {
					add(a, true)
				}
			}
		case "bvult", "bvule", "bvslt", "bvsle":
			g := u
			if l.Op == "bvslt" || l.Op == "bvsle" {
				g = s
			}
			a, b := l.Args[0], l.Args[1]
			strict := l.Op == "bvult" || l.Op == "bvslt"
			switch {
			case strict && !neg:
				g.addLt(a, b)
			case strict && neg:
				g.addLe(b, a)
			case !strict && !neg:
				g.addLe(a, b)
			default:
				g.addLt(b, a)
			}
		case "=":
			a, b := l.Args[0], l.Args[1]
			if a.S.K != smt.KBV {
				return
			}
			for _, g := range []*ordGraph{u, s} {
				if !neg {
					g.addLe(a, b)
					g.addLe(b, a)
				} else {
					g.ne = append(g.ne, [2]int{g.node(a), g.node(b)})
				}
			}
		}
	}
	for _, l := range lits {
		add(l, false)
	}
	return u.unsat() || s.unsat()
}
