package props

import (
	"fmt"
	"go/ast"
	"go/types"
	"math/big"
	"strings"

	"gocv/smt"
	"gocv/spec"
	"gocv/sx"
	"gocv/vc"

	"golang.org/x/tools/go/ssa"
)

// C24: rendering fits the granted space. The argument is modular:
//   - view.Print (the screen) grants a view one height between its declared
//     minimum and the terminal height (proved for every declared minimum,
//     maximum and terminal height, over an abstract view);
//   - Composite.Print, given at least its minimum, grants every element a
//     height between that element's minimum and maximum and all grants plus the
//     separators fit (abstract elements with arbitrary small heights);
//   - the leaf views (listing, memory, registers) write at most the height
//     they are granted, the register view exactly its declared height (real
//     views over the states of the corpus, every cursor position, a set of
//     heights).

const viewPkg = "mltwist/internal/consoleui/internal/view"

// outLines counts the newlines written by the function under contract.
func outLines(p *sx.Path) (int, bool, string) {
	n := 0
	whole := true
	for _, s := range p.Out {
		if !s.Concrete() {
			return 0, false, "the output is not determined by the state: " + sx.Show(s)
		}
		n += strings.Count(s.S, "\n")
		if s.S != "" && !strings.HasSuffix(s.S, "\n") {
			whole = false
		}
	}
	return n, whole, ""
}

func (c *Ctx) installOutBuiltins(ev *spec.Eval) {
	p := ev.P
	ev.Builtins["out_lines"] = func(ev *spec.Eval, a []ast.Expr) spec.TV {
		n, _, bad := outLines(p)
		if bad != "" {
			panic(sx.Unsupported{Msg: bad})
		}
		return spec.TV{V: smt.BVI(int64(n), 64), T: types.Typ[types.Int]}
	}
	ev.Builtins["out_whole_lines"] = func(ev *spec.Eval, a []ast.Expr) spec.TV {
		_, whole, bad := outLines(p)
		if bad != "" {
			panic(sx.Unsupported{Msg: bad})
		}
		return spec.TV{V: smt.BoolC(whole)}
	}
}

// specInt evaluates a contract expression that must be an integer constant.
func specInt(ev *spec.Eval, e ast.Expr) int64 {
	switch v := ev.Eval(e).V.(type) {
	case *big.Int:
		return v.Int64()
	case *smt.Term:
		if k, ok := sx.ConstInt(v); ok {
			return k
		}
	}
	panic("a contract builtin takes an integer constant here")
}

// abstractViews: the abstract element views of a unit.
type abstractViews struct {
	c     *Ctx
	p     *sx.Path
	ptrs  []sx.Ptr
	mins  []*smt.Term
	maxs  []*smt.Term
	absT  types.Type
	viewT types.Type
}

func (c *Ctx) newAbstractViews(p *sx.Path) *abstractViews {
	return &abstractViews{c: c, p: p, absT: c.pkgType(viewPkg, "Abstract"), viewT: c.pkgType(viewPkg, "View")}
}

func (av *abstractViews) get(i int) sx.Iface {
	for len(av.ptrs) <= i {
		k := len(av.ptrs)
		mn := smt.Var(fmt.Sprintf("view%d.min", k), smt.BV(64))
		mx := smt.Var(fmt.Sprintf("view%d.max", k), smt.BV(64))
		st := sx.Zero(av.absT).(*sx.Struct)
		st.F[fieldIdx(av.absT, "Min")] = mn
		st.F[fieldIdx(av.absT, "Max")] = mx
		av.ptrs = append(av.ptrs, sx.Ptr{Obj: av.p.Alloc(st)})
		av.mins = append(av.mins, mn)
		av.maxs = append(av.maxs, mx)
	}
	return sx.Iface{T: types.NewPointer(av.absT), V: av.ptrs[i]}
}

func (av *abstractViews) granted(i int) []*smt.Term {
	st := av.p.Load(av.ptrs[i], "abstract view").(*sx.Struct)
	sl := st.F[fieldIdx(av.absT, "Granted")].(sx.Slice)
	n, _ := sl.Len.Uint64()
	var out []*smt.Term
	if n > 0 {
		for _, e := range av.p.SliceElems(sl) {
			out = append(out, e.(*smt.Term))
		}
	}
	return out
}

func (c *Ctx) installAbstractViewBuiltins(ev *spec.Eval, av *abstractViews) {
	B := ev.Builtins
	p := ev.P
	intT := types.Typ[types.Int]
	num := func(ev *spec.Eval, e ast.Expr) int { return int(specInt(ev, e)) }
	i64 := func(k int) *smt.Term { return smt.BVI(int64(k), 64) }
	B["abstract_view"] = func(ev *spec.Eval, a []ast.Expr) spec.TV {
		return spec.TV{V: av.get(num(ev, a[0])), T: av.viewT}
	}
	B["composite_of"] = func(ev *spec.Eval, a []ast.Expr) spec.TV {
		k := num(ev, a[0])
		var els []sx.Val
		for i := 0; i < k; i++ {
			els = append(els, av.get(i))
		}
		r := p.Call(c.Func("consoleui/internal/view.NewComposite"), []sx.Val{p.NewSlice(av.viewT, els)}, nil, nil)
		return spec.TV{V: r, T: types.NewPointer(c.pkgType(viewPkg, "Composite"))}
	}
	B["view_min"] = func(ev *spec.Eval, a []ast.Expr) spec.TV {
		i := num(ev, a[0])
		av.get(i)
		return spec.TV{V: av.mins[i], T: intT}
	}
	B["view_max"] = func(ev *spec.Eval, a []ast.Expr) spec.TV {
		i := num(ev, a[0])
		av.get(i)
		return spec.TV{V: av.maxs[i], T: intT}
	}
	B["screen_height"] = func(ev *spec.Eval, a []ast.Expr) spec.TV {
		h, ok := p.Ghost["term.height"].(*smt.Term)
		if !ok {
			h = smt.Var("term.height", smt.BV(64))
			p.Ghost["term.height"] = h
		}
		return spec.TV{V: h, T: intT}
	}
	B["size_unknown"] = func(ev *spec.Eval, a []ast.Expr) spec.TV {
		return spec.TV{V: smt.Var("term.getsize.fails", smt.Bool)}
	}
	B["granted_count"] = func(ev *spec.Eval, a []ast.Expr) spec.TV {
		return spec.TV{V: i64(len(av.granted(num(ev, a[0])))), T: intT}
	}
	B["granted"] = func(ev *spec.Eval, a []ast.Expr) spec.TV {
		g := av.granted(num(ev, a[0]))
		if len(g) == 0 {
			return spec.TV{V: i64(0), T: intT}
		}
		return spec.TV{V: g[0], T: intT}
	}
	// heights_small(k): minima in 0..3, maxima in -1..6 (negative: no limit)
	B["heights_small"] = func(ev *spec.Eval, a []ast.Expr) spec.TV {
		k := num(ev, a[0])
		cond := smt.True
		for i := 0; i < k; i++ {
			av.get(i)
			cond = smt.And(cond, smt.BVSle(i64(0), av.mins[i]), smt.BVSle(av.mins[i], i64(3)),
				smt.BVSle(i64(-1), av.maxs[i]), smt.BVSle(av.maxs[i], i64(6)))
		}
		return spec.TV{V: cond}
	}
	B["sum_min"] = func(ev *spec.Eval, a []ast.Expr) spec.TV {
		k := num(ev, a[0])
		s := i64(0)
		for i := 0; i < k; i++ {
			av.get(i)
			s = smt.BVAdd(s, av.mins[i])
		}
		return spec.TV{V: s, T: intT}
	}
	B["sum_granted"] = func(ev *spec.Eval, a []ast.Expr) spec.TV {
		k := num(ev, a[0])
		s := i64(0)
		for i := 0; i < k; i++ {
			for _, g := range av.granted(i) {
				s = smt.BVAdd(s, g)
			}
		}
		return spec.TV{V: s, T: intT}
	}
	all := func(f func(i int) *smt.Term) spec.Builtin {
		return func(ev *spec.Eval, a []ast.Expr) spec.TV {
			k := num(ev, a[0])
			cond := smt.True
			for i := 0; i < k; i++ {
				cond = smt.And(cond, f(i))
			}
			return spec.TV{V: cond}
		}
	}
	B["none_granted"] = all(func(i int) *smt.Term { return smt.BoolC(len(av.granted(i)) == 0) })
	B["each_granted_once"] = all(func(i int) *smt.Term { return smt.BoolC(len(av.granted(i)) == 1) })
	B["each_at_least_min"] = all(func(i int) *smt.Term {
		cond := smt.True
		for _, g := range av.granted(i) {
			cond = smt.And(cond, smt.BVSle(av.mins[i], g))
		}
		return cond
	})
	B["each_at_most_max"] = all(func(i int) *smt.Term {
		cond := smt.True
		for _, g := range av.granted(i) {
			cond = smt.And(cond, smt.Implies(smt.BVSle(av.mins[i], av.maxs[i]), smt.BVSle(g, av.maxs[i])))
		}
		return cond
	})
}

// ---- the states of the leaf views ----

type viewState struct {
	Prog   int
	Prefix []string
}

func (s viewState) String() string { return fmt.Sprintf("%s %q", uiPrograms()[s.Prog].Name, s.Prefix) }

func viewStates(tier string) []viewState {
	out := []viewState{{0, nil}, {1, nil}, {2, nil}, {3, nil}, {1, []string{"m 1 2"}}, {2, []string{"m 0 6"}}}
	if tier == "thorough" {
		out = append(out, viewState{3, []string{"m 6 0", "m 0 2"}}, viewState{1, []string{"m 0 7", "m 4 0"}})
	}
	return out
}

// memState: the stores (address, width) made into an empty sparse memory; Nil:
// no memory at all; Image: the sparse memory overlays a program image at 0x1000.
type memState struct {
	Name   string
	Nil    bool
	Image  int // bytes of program image at 0x1000 under the sparse memory (0: none)
	Stores [][2]uint64
}

func memStates(tier string) []memState {
	out := []memState{
		{Name: "no-memory", Nil: true},
		{Name: "empty"},
		{Name: "one-word", Stores: [][2]uint64{{0x1000, 8}}},
		{Name: "from-zero", Stores: [][2]uint64{{0, 8}, {0x10, 4}, {0x48, 16}, {0x1003, 2}}},
		{Name: "two-ranges-in-a-row", Stores: [][2]uint64{{0x100, 2}, {0x108, 4}, {0x10e, 4}}},
		{Name: "top-of-memory", Stores: [][2]uint64{{0xfffffffffffffff0, 8}, {0x20, 1}}},
		{Name: "image-and-stores", Image: 20, Stores: [][2]uint64{{0x1010, 8}, {0x2000, 4}}},
		{Name: "many-rows", Stores: [][2]uint64{{0x0, 8}, {0x40, 8}, {0x80, 8}, {0xc0, 8}, {0x100, 16}, {0x110, 16}, {0x200, 1}}},
	}
	return out
}

// heightsFor: the heights a leaf view with rows rows is asked to print with.
func heightsFor(rows int, tier string) []int64 {
	var hs []int64
	top := rows + 4
	if tier == "thorough" {
		top = rows + 12
	}
	for h := 5; h <= top; h++ {
		hs = append(hs, int64(h))
	}
	return append(hs, 64, 1<<31-1)
}

// pick forks the path over the values of a fresh variable.
func pick(p *sx.Path, name string, vals []int64) int64 {
	v := smt.Var(name, smt.BV(64))
	for i, k := range vals {
		if i == len(vals)-1 || p.Decide(smt.Eq(v, smt.BVI(k, 64))) {
			p.Assume(smt.Eq(v, smt.BVI(k, 64)))
			return k
		}
	}
	panic("pick from an empty set")
}

func upto(n int) []int64 {
	var out []int64
	for i := 0; i < n; i++ {
		out = append(out, int64(i))
	}
	return out
}

func (c *Ctx) c24Units() []*vc.Unit {
	var units []*vc.Unit
	// 1. the screen and the composite over abstract views
	c.Sets["COMPOSITESIZES"] = []int64{1, 2, 3}
	abstract := func(contract, fname string, bounded string) {
		units = append(units, c.ContractUnits(contract, func(us *UnitSpec) {
			us.FuncName = fname
			us.Bounded = bounded
			us.MaxPaths = 200000
			us.Hooks = func(m *sx.Machine) { m.MaxSteps = 3_000_000 }
			us.Inputs = func(p *sx.Path, ev *spec.Eval, fn *ssa.Function) map[string]sx.Val {
				p.Out = nil
				av := c.newAbstractViews(p)
				c.installAbstractViewBuiltins(ev, av)
				c.installOutBuiltins(ev)
				return nil
			}
		})...)
	}
	abstract("consoleui/internal/view.Print", "consoleui/internal/view.Print", "")
	abstract("(*consoleui/internal/view.Composite).Print", "(*consoleui/internal/view.Composite).Print", "composites of 1-3 abstract elements with minima 0..3, maxima -1..6, heights 0..14")
	abstract("(*consoleui/internal/view.Composite).MinLines", "(*consoleui/internal/view.Composite).MinLines", "composites of 1-3 abstract elements with minima 0..3, maxima -1..6")

	// 2. the listing view
	parser := c.rv64Parser()
	vstates := viewStates(c.Tier)
	c.Sets["VIEWSTATES"] = upto(len(vstates))
	units = append(units, c.ContractUnits("(*consoleui/internal/lines.View).Print", func(us *UnitSpec) {
		s := vstates[us.Enum["s"]]
		us.InstanceName = fmt.Sprintf("s=%d %s", us.Enum["s"], s)
		us.Bounded = "listing views of the corpus (every cursor position; heights 5..rows+4, 64, 2^31-1)"
		us.MaxPaths = 5000
		world := &uiWorld{}
		us.Prepare = func(p *sx.Path) {
			*world = *c.buildUIWorld(p, uiPrograms()[s.Prog], parser)
			var script []sx.Str
			for _, l := range s.Prefix {
				script = append(script, sx.Str{S: l})
			}
			p.Ghost["stdin"] = script
			p.Ghost["stdin.stop"] = true
			func() {
				defer func() {
					if r := recover(); r != nil {
						if _, ok := sx.IsPathEnd(r); ok {
							return
						}
						panic(r)
					}
				}()
				for len(p.Ghost["stdin"].([]sx.Str)) > 0 {
					p.Call(c.Func("(*consoleui.UI).processCommand"), []sx.Val{world.ui}, nil, nil)
				}
			}()
		}
		us.CallHook = c.valueHook
		us.Hooks = func(m *sx.Machine) { m.MaxSteps = 3_000_000 }
		us.Inputs = func(p *sx.Path, ev *spec.Eval, fn *ssa.Function) map[string]sx.Val {
			st := c.uiStateOf(p, world)
			lines, _ := st.listing()
			var n int64
			c.installOutBuiltins(ev)
			ev.Builtins["cursor_anywhere"] = func(ev *spec.Eval, a []ast.Expr) spec.TV {
				k := pick(p, "cursor.at", upto(len(lines)))
				viewT := c.pkgType("mltwist/internal/consoleui/internal/lines", "View")
				vs := p.Load(st.view, "view").(*sx.Struct)
				r := p.Call(c.Func("(*consoleui/internal/cursor.Cursor).Set"), []sx.Val{vs.F[fieldIdx(viewT, "Cursor")], smt.BVI(k, 64)}, nil, nil)
				return spec.TV{V: smt.BoolC(r.(sx.Iface).T == nil)}
			}
			ev.Builtins["height_at_least"] = func(ev *spec.Eval, a []ast.Expr) spec.TV {
				return spec.TV{V: smt.BoolC(n >= 5)}
			}
			n = pick(p, "height", heightsFor(len(lines), c.Tier))
			p.Out = nil
			env := c.leafEnv(p)
			env.BigLimit = 0
			p.Ghost["env"] = env
			return map[string]sx.Val{"v": st.view, "n": smt.BVI(n, 64)}
		}
	})...)

	// 3. the memory view
	mstates := memStates(c.Tier)
	c.Sets["MEMSTATES"] = upto(len(mstates))
	units = append(units, c.ContractUnits("(*consoleui/internal/memview.memoryView).Print", func(us *UnitSpec) {
		s := mstates[us.Enum["ms"]]
		us.InstanceName = fmt.Sprintf("ms=%d %s", us.Enum["ms"], s.Name)
		us.Bounded = "memory views of the corpus of memory states (every cursor position; heights 5..rows+4, 64, 2^31-1)"
		us.MaxPaths = 5000
		var mv sx.Ptr
		us.Prepare = func(p *sx.Path) { mv = c.buildMemView(p, s, nil) }
		us.CallHook = c.valueHook
		us.Hooks = func(m *sx.Machine) { m.MaxSteps = 3_000_000 }
		us.Inputs = func(p *sx.Path, ev *spec.Eval, fn *ssa.Function) map[string]sx.Val {
			rows := c.memViewRows(p, mv)
			var n int64
			c.installOutBuiltins(ev)
			ev.Builtins["cursor_anywhere"] = func(ev *spec.Eval, a []ast.Expr) spec.TV {
				if rows == 0 {
					return spec.TV{V: smt.True}
				}
				k := pick(p, "cursor.at", upto(rows))
				mvT := c.pkgType("mltwist/internal/consoleui/internal/memview", "memoryView")
				vs := p.Load(mv, "memory view").(*sx.Struct)
				r := p.Call(c.Func("(*consoleui/internal/cursor.Cursor).Set"), []sx.Val{vs.F[fieldIdx(mvT, "c")], smt.BVI(k, 64)}, nil, nil)
				return spec.TV{V: smt.BoolC(r.(sx.Iface).T == nil)}
			}
			ev.Builtins["height_at_least"] = func(ev *spec.Eval, a []ast.Expr) spec.TV {
				return spec.TV{V: smt.BoolC(n >= 5)}
			}
			n = pick(p, "height", heightsFor(rows, c.Tier))
			p.Out = nil
			env := c.leafEnv(p)
			env.BigLimit = 0
			p.Ghost["env"] = env
			return map[string]sx.Val{"v": mv, "n": smt.BVI(n, 64)}
		}
	})...)

	// 4. the register view
	c.Sets["REGCOUNTS"] = upto(8)
	c.Sets["BOOLS"] = []int64{0, 1}
	units = append(units, c.ContractUnits("(*consoleui/emulate.regView).Print", func(us *UnitSpec) {
		us.Bounded = "register views over 0-7 registers of 8 bytes, with and without the instruction pointer"
		us.CallHook = c.valueHook
		us.Inputs = func(p *sx.Path, ev *spec.Eval, fn *ssa.Function) map[string]sx.Val {
			c.installOutBuiltins(ev)
			var rv sx.Ptr
			rvT := types.NewPointer(c.pkgType("mltwist/internal/consoleui/emulate", "regView"))
			ev.Builtins["reg_view"] = func(ev *spec.Eval, a []ast.Expr) spec.TV {
				k, ip := specInt(ev, a[0]), specInt(ev, a[1])
				st := p.Call(c.Func("state.New"), nil, nil, nil).(sx.Ptr)
				stT := c.pkgType("mltwist/internal/state", "State")
				regs := p.Load(st, "state").(*sx.Struct).F[fieldIdx(stT, "Regs")]
				store := func(key string, v uint64) {
					bs := make([]*smt.Term, 8)
					for i := range bs {
						bs[i] = smt.BVU(v>>(8*uint(i))&0xff, 8)
					}
					p.Call(c.Func("(*state.RegMap).Store"), []sx.Val{regs, sx.Str{S: key}, c.IR.MkConst(p, bs), smt.BVU(8, 8)}, nil, nil)
				}
				if ip != 0 {
					store("#r:w:ip", 0x1000)
				}
				for i := int64(0); i < k; i++ {
					store(fmt.Sprintf("x%d", 3*i+1), 0xfedcba9876543210>>(4*uint(i)))
				}
				rv = p.Call(c.Func("consoleui/emulate.newRegView"), []sx.Val{st}, nil, nil).(sx.Ptr)
				return spec.TV{V: rv, T: rvT}
			}
			declared := func(m string) spec.Builtin {
				return func(ev *spec.Eval, a []ast.Expr) spec.TV {
					out := p.Out
					r := p.Call(c.Func("(*consoleui/emulate.regView)."+m), []sx.Val{rv}, nil, nil)
					p.Out = out
					return spec.TV{V: r, T: types.Typ[types.Int]}
				}
			}
			ev.Builtins["declared_min"] = declared("MinLines")
			ev.Builtins["declared_max"] = declared("MaxLines")
			p.Out = nil
			env := c.leafEnv(p)
			env.BigLimit = 0
			p.Ghost["env"] = env
			return nil
		}
	})...)
	return units
}

// buildMemView builds the memory of a memory state through the real
// constructors and stores, and the memory view over it. vals (optional)
// receives the value term of every stored byte.
func (c *Ctx) buildMemView(p *sx.Path, s memState, vals map[uint64]*smt.Term) sx.Ptr {
	memPk := "mltwist/internal/state/memory"
	memoryT := c.pkgType(memPk, "Memory")
	var mem sx.Val = sx.Iface{}
	if !s.Nil {
		sparsePT := types.NewPointer(c.pkgType(memPk, "Sparse"))
		sp := p.Call(c.Func("state/memory.NewSparse"), nil, nil, nil)
		var recv sx.Val = sp
		store := c.Func("(*state/memory.Sparse).Store")
		mem = sx.Iface{T: sparsePT, V: sp}
		if s.Image > 0 {
			bbT := c.pkgType(memPk, "ByteBlock")
			blkT := c.pkgType("mltwist/internal/elf", "Block")
			var bs []sx.Val
			for i := 0; i < s.Image; i++ {
				b := smt.BVU(uint64(0x13+7*i)&0xff, 8)
				if vals != nil {
					b = smt.Var(fmt.Sprintf("image.%d", i), smt.BV(8))
					vals[0x1000+uint64(i)] = b
				}
				bs = append(bs, b)
			}
			blk := sx.Zero(blkT).(*sx.Struct)
			blk.F[fieldIdx(blkT, "begin")] = smt.BVU(0x1000, 64)
			blk.F[fieldIdx(blkT, "bytes")] = p.NewSlice(types.Typ[types.Uint8], bs)
			r := p.Call(c.Func("state/memory.NewBytes"), []sx.Val{p.NewSlice(bbT, []sx.Val{sx.Iface{T: blkT, V: blk}})}, nil, nil).(sx.Tuple)
			bytesPT := types.NewPointer(c.pkgType(memPk, "Bytes"))
			ovPT := types.NewPointer(c.pkgType(memPk, "Overlay"))
			ov := p.Call(c.Func("state/memory.NewOverlay"), []sx.Val{sx.Iface{T: bytesPT, V: r[0]}, sx.Iface{T: sparsePT, V: sp}}, nil, nil)
			recv = ov
			store = c.Func("(*state/memory.Overlay).Store")
			mem = sx.Iface{T: ovPT, V: ov}
		}
		for j, st := range s.Stores {
			w := int(st[1])
			bs := make([]*smt.Term, w)
			for k := range bs {
				bs[k] = smt.BVU(uint64(0xa0+16*j+k)&0xff, 8)
				if vals != nil {
					bs[k] = smt.Var(fmt.Sprintf("st%d.%d", j, k), smt.BV(8))
					vals[st[0]+uint64(k)] = bs[k]
				}
			}
			p.Call(store, []sx.Val{recv, smt.BVU(st[0], 64), c.IR.MkConst(p, bs), smt.BVU(uint64(w), 8)}, nil, nil)
		}
	}
	_ = memoryT
	return p.Call(c.Func("consoleui/internal/memview.newMemoryView"), []sx.Val{mem}, nil, nil).(sx.Ptr)
}

func (c *Ctx) memViewRows(p *sx.Path, mv sx.Ptr) int {
	mvT := c.pkgType("mltwist/internal/consoleui/internal/memview", "memoryView")
	vs := p.Load(mv, "memory view").(*sx.Struct)
	sl := vs.F[fieldIdx(mvT, "lines")].(sx.Slice)
	n, _ := sl.Len.Uint64()
	return int(n)
}

func init() {
	register(&Prop{
		ID:        "C24",
		Level:     "other",
		Technique: "contract-based deductive verification: the screen's grant proved over an abstract view for every declared height and terminal height; the composite's distribution over abstract elements and the three leaf views' output against the granted height on the real code, bounded in element heights, view states and heights",
		MinObls:   300,
		Claim:     "view.Print (screen) grants a view at most one height, at least its declared minimum, at most the terminal height and, when the maximum is not below the minimum, at most the maximum - for every declared minimum and maximum and every terminal height (unbounded). Composite.Print given at least its minimum asks every element exactly once, grants each between its minimum and its maximum (so a fixed height exactly), writes one separator line between elements and the sum of grants and separators does not exceed the height given; given less it returns an error and prints nothing. The listing view and the memory view write whole lines and at most the granted number; the register view declares a fixed height and writes exactly that many lines. No index, slice, nil, type assertion, division or explicit panic is reachable in any of these functions.",
		Note:      "the screen contract is discharged for all inputs; everything else is a bounded stand-in over the stated sets. The command prompt (two declared lines, the second being the echo of the user's ENTER) is not part of the property's views. That the states of the corpus stand for every state is not proved.",
		Assumptions: []string{
			"bounded: composites of 1-3 abstract elements with minima 0..3 and maxima -1..6, granted heights 0..14",
			"bounded: listing views of 4 programs (6 states, thorough 8), memory views of 8 memory states, every cursor position, heights 5..rows+4 (thorough rows+12), 64 and 2^31-1; register views over 0-7 eight-byte registers",
			"an element view obeys the View contract: asked to print n >= its minimum lines it writes at most n (this is what the leaf contracts establish for the three real views)",
			"terminal.GetSize fails or returns an arbitrary non-negative height; fmt.Print/Printf write their formatted text (the real fmt formats the concrete values); the floating-point window computation is evaluated in 80-bit fixed point",
			"register values are constants (established by C04)",
		},
		Build: func(c *Ctx) []*vc.Unit { return c.c24Units() },
	})
}
