// Package smt is a small SMT-LIB term library: hash-consed terms over Bool,
// fixed-width bit-vectors, Int, arrays and one algebraic datatype family, with
// constant folding on construction, a printer producing a DAG of define-funs
// and a concrete evaluator used for replay.
package smt

import (
	"fmt"
	"math/big"
	"sort"
	"strings"
	"sync"
)

type Kind int

const (
	KBool Kind = iota
	KBV
	KInt
	KArray
	KData
)

// Sort of a term.
type Sort struct {
	K    Kind
	W    int   // bit-vector width
	Idx  *Sort // arrays
	Elem *Sort
	Name string // datatypes / uninterpreted sorts
}

var Bool = &Sort{K: KBool}
var Int = &Sort{K: KInt}

var sortMu sync.Mutex
var bvSorts = map[int]*Sort{}
var arrSorts = map[string]*Sort{}
var dataSorts = map[string]*Sort{}

func BV(w int) *Sort {
	sortMu.Lock()
	defer sortMu.Unlock()
	if s, ok := bvSorts[w]; ok {
		return s
	}
	s := &Sort{K: KBV, W: w}
	bvSorts[w] = s
	return s
}

func Array(idx, elem *Sort) *Sort {
	k := idx.String() + "->" + elem.String()
	sortMu.Lock()
	defer sortMu.Unlock()
	if s, ok := arrSorts[k]; ok {
		return s
	}
	s := &Sort{K: KArray, Idx: idx, Elem: elem}
	arrSorts[k] = s
	return s
}

func Data(name string) *Sort {
	sortMu.Lock()
	defer sortMu.Unlock()
	if s, ok := dataSorts[name]; ok {
		return s
	}
	s := &Sort{K: KData, Name: name}
	dataSorts[name] = s
	return s
}

func (s *Sort) String() string {
	switch s.K {
	case KBool:
		return "Bool"
	case KInt:
		return "Int"
	case KBV:
		return fmt.Sprintf("(_ BitVec %d)", s.W)
	case KArray:
		return fmt.Sprintf("(Array %s %s)", s.Idx, s.Elem)
	case KData:
		return s.Name
	}
	return "?"
}

// Term is an immutable hash-consed SMT term.
type Term struct {
	Op   string
	Args []*Term
	S    *Sort
	C    *big.Int // constant value (BV / Int)
	Name string   // variable or function symbol
	P    [2]int   // numeric parameters (extract hi lo, extend n)
	ID   int
	// Bound is true when the term mentions a quantified variable (such
	// terms are printed in-line).
	Bound bool
}

var mu sync.Mutex
var table = map[string]*Term{}
var nextID = 1

func mk(op string, s *Sort, name string, c *big.Int, p [2]int, args ...*Term) *Term {
	var sb strings.Builder
	sb.WriteString(op)
	sb.WriteByte('|')
	sb.WriteString(s.String())
	sb.WriteByte('|')
	sb.WriteString(name)
	if c != nil {
		sb.WriteByte('#')
		sb.WriteString(c.Text(16))
	}
	fmt.Fprintf(&sb, "|%d,%d", p[0], p[1])
	bound := op == "bound"
	for _, a := range args {
		fmt.Fprintf(&sb, "|%d", a.ID)
		if a.Bound {
			bound = true
		}
	}
	k := sb.String()
	mu.Lock()
	defer mu.Unlock()
	if t, ok := table[k]; ok {
		return t
	}
	t := &Term{Op: op, Args: args, S: s, C: c, Name: name, P: p, ID: nextID, Bound: bound}
	nextID++
	table[k] = t
	return t
}

var True = mk("true", Bool, "", nil, [2]int{})
var False = mk("false", Bool, "", nil, [2]int{})

func BoolC(b bool) *Term {
	if b {
		return True
	}
	return False
}

func mask(w int) *big.Int {
	m := new(big.Int).Lsh(big.NewInt(1), uint(w))
	return m.Sub(m, big.NewInt(1))
}

func norm(v *big.Int, w int) *big.Int {
	r := new(big.Int).And(v, mask(w))
	return r
}

// BVC returns the bit-vector constant v mod 2^w.
func BVC(v *big.Int, w int) *Term {
	return mk("bvconst", BV(w), "", norm(v, w), [2]int{})
}

func BVU(v uint64, w int) *Term { return BVC(new(big.Int).SetUint64(v), w) }
func BVI(v int64, w int) *Term  { return BVC(big.NewInt(v), w) }

func IntC(v int64) *Term { return mk("intconst", Int, "", big.NewInt(v), [2]int{}) }
func IntBig(v *big.Int) *Term {
	return mk("intconst", Int, "", new(big.Int).Set(v), [2]int{})
}

// Var is a free constant of the given sort.
func Var(name string, s *Sort) *Term { return mk("var", s, name, nil, [2]int{}) }

// BoundVar is a quantified variable.
func BoundVar(name string, s *Sort) *Term { return mk("bound", s, name, nil, [2]int{}) }

// App applies an uninterpreted (declared or defined elsewhere) symbol.
func App(name string, s *Sort, args ...*Term) *Term {
	return mk("app", s, name, nil, [2]int{}, args...)
}

// AppC applies a commutative binary symbol: the arguments are kept in a
// canonical order, also under substitution.
func AppC(name string, s *Sort, a, b *Term) *Term {
	if a.ID > b.ID {
		a, b = b, a
	}
	return mk("app", s, name, nil, [2]int{1, 0}, a, b)
}

func (t *Term) IsConst() bool { return t.Op == "bvconst" || t.Op == "intconst" || t.Op == "true" || t.Op == "false" }
func (t *Term) IsTrue() bool  { return t.Op == "true" }
func (t *Term) IsFalse() bool { return t.Op == "false" }

// Uint64 returns the value of a constant bit-vector.
func (t *Term) Uint64() (uint64, bool) {
	if (t.Op == "bvconst" || t.Op == "intconst") && t.C.IsUint64() {
		return t.C.Uint64(), true
	}
	return 0, false
}

func signed(v *big.Int, w int) *big.Int {
	if v.Bit(w-1) == 1 {
		return new(big.Int).Sub(v, new(big.Int).Lsh(big.NewInt(1), uint(w)))
	}
	return new(big.Int).Set(v)
}

// ---------- Boolean connectives ----------

func Not(a *Term) *Term {
	switch a.Op {
	case "true":
		return False
	case "false":
		return True
	case "not":
		return a.Args[0]
	}
	return mk("not", Bool, "", nil, [2]int{}, a)
}

func And(as ...*Term) *Term {
	var out []*Term
	seen := map[int]bool{}
	for _, a := range as {
		if a.IsFalse() {
			return False
		}
		if a.IsTrue() || seen[a.ID] {
			continue
		}
		if a.Op == "and" {
			for _, b := range a.Args {
				if !seen[b.ID] {
					seen[b.ID] = true
					out = append(out, b)
				}
			}
			continue
		}
		seen[a.ID] = true
		out = append(out, a)
	}
	for _, a := range out {
		if a.Op == "not" && seen[a.Args[0].ID] {
			return False
		}
	}
	switch len(out) {
	case 0:
		return True
	case 1:
		return out[0]
	}
	return mk("and", Bool, "", nil, [2]int{}, out...)
}

func Or(as ...*Term) *Term {
	var out []*Term
	seen := map[int]bool{}
	for _, a := range as {
		if a.IsTrue() {
			return True
		}
		if a.IsFalse() || seen[a.ID] {
			continue
		}
		if a.Op == "or" {
			for _, b := range a.Args {
				if !seen[b.ID] {
					seen[b.ID] = true
					out = append(out, b)
				}
			}
			continue
		}
		seen[a.ID] = true
		out = append(out, a)
	}
	for _, a := range out {
		if a.Op == "not" && seen[a.Args[0].ID] {
			return True
		}
	}
	switch len(out) {
	case 0:
		return False
	case 1:
		return out[0]
	}
	return mk("or", Bool, "", nil, [2]int{}, out...)
}

func Implies(a, b *Term) *Term {
	if a.IsTrue() {
		return b
	}
	if a.IsFalse() || b.IsTrue() {
		return True
	}
	if b.IsFalse() {
		return Not(a)
	}
	return mk("=>", Bool, "", nil, [2]int{}, a, b)
}

func Ite(c, a, b *Term) *Term {
	if c.IsTrue() {
		return a
	}
	if c.IsFalse() {
		return b
	}
	if a == b {
		return a
	}
	if a.S != b.S {
		panic(fmt.Sprintf("smt.Ite: sort mismatch %s vs %s", a.S, b.S))
	}
	if a.S.K == KBool {
		if a.IsTrue() && b.IsFalse() {
			return c
		}
		if a.IsFalse() && b.IsTrue() {
			return Not(c)
		}
	}
	return mk("ite", a.S, "", nil, [2]int{}, c, a, b)
}

func Eq(a, b *Term) *Term {
	if a == b {
		return True
	}
	if a.S != b.S {
		panic(fmt.Sprintf("smt.Eq: sort mismatch %s vs %s (%s / %s)", a.S, b.S, a, b))
	}
	if a.IsConst() && b.IsConst() {
		if a.S.K == KBool {
			return BoolC(a.Op == b.Op)
		}
		return BoolC(a.C.Cmp(b.C) == 0)
	}
	if a.S.K == KBool {
		if a.IsTrue() {
			return b
		}
		if b.IsTrue() {
			return a
		}
		if a.IsFalse() {
			return Not(b)
		}
		if b.IsFalse() {
			return Not(a)
		}
	}
	// concat(hi, lo) == const  splits into two equalities
	if a.S.K == KBV {
		x, c := a, b
		if x.Op == "bvconst" {
			x, c = b, a
		}
		if c.Op == "bvconst" && x.Op == "concat" {
			lw := x.Args[1].S.W
			return And(Eq(x.Args[0], Extract(c, a.S.W-1, lw)), Eq(x.Args[1], Extract(c, lw-1, 0)))
		}
		if c.Op == "bvconst" && x.Op == "zero_extend" {
			iw := x.Args[0].S.W
			if Extract(c, a.S.W-1, iw).C.Sign() != 0 {
				return False
			}
			return Eq(x.Args[0], Extract(c, iw-1, 0))
		}
	}
	if a.ID > b.ID {
		a, b = b, a
	}
	return mk("=", Bool, "", nil, [2]int{}, a, b)
}

func Distinct(a, b *Term) *Term { return Not(Eq(a, b)) }

// ---------- Bit-vectors ----------

func bvbin(op string, a, b *Term) *Term {
	if a.S != b.S || a.S.K != KBV {
		panic(fmt.Sprintf("smt.%s: sort mismatch %s vs %s", op, a.S, b.S))
	}
	w := a.S.W
	if a.Op == "bvconst" && b.Op == "bvconst" {
		x, y := a.C, b.C
		r := new(big.Int)
		switch op {
		case "bvadd":
			r.Add(x, y)
		case "bvsub":
			r.Sub(x, y)
		case "bvmul":
			r.Mul(x, y)
		case "bvand":
			r.And(x, y)
		case "bvor":
			r.Or(x, y)
		case "bvxor":
			r.Xor(x, y)
		case "bvudiv":
			if y.Sign() == 0 {
				r = mask(w)
			} else {
				r.Div(x, y)
			}
		case "bvurem":
			if y.Sign() == 0 {
				r.Set(x)
			} else {
				r.Mod(x, y)
			}
		case "bvsdiv":
			sx, sy := signed(x, w), signed(y, w)
			if sy.Sign() == 0 {
				if sx.Sign() < 0 {
					r.SetInt64(1)
				} else {
					r = mask(w)
				}
			} else {
				r.Quo(sx, sy)
			}
		case "bvsrem":
			sx, sy := signed(x, w), signed(y, w)
			if sy.Sign() == 0 {
				r.Set(sx)
			} else {
				r.Rem(sx, sy)
			}
		case "bvshl":
			if y.Cmp(big.NewInt(int64(w))) >= 0 {
				r.SetInt64(0)
			} else {
				r.Lsh(x, uint(y.Uint64()))
			}
		case "bvlshr":
			if y.Cmp(big.NewInt(int64(w))) >= 0 {
				r.SetInt64(0)
			} else {
				r.Rsh(x, uint(y.Uint64()))
			}
		case "bvashr":
			sx := signed(x, w)
			sh := uint(w)
			if y.Cmp(big.NewInt(int64(w))) < 0 {
				sh = uint(y.Uint64())
			}
			r.Rsh(sx, sh)
		default:
			panic(op)
		}
		return BVC(r, w)
	}
	zero := func(t *Term) bool { return t.Op == "bvconst" && t.C.Sign() == 0 }
	ones := func(t *Term) bool { return t.Op == "bvconst" && t.C.Cmp(mask(w)) == 0 }
	if op == "bvadd" || op == "bvsub" {
		if r := linearCancel(op, a, b); r != nil {
			return r
		}
	}
	switch op {
	case "bvadd", "bvor", "bvxor":
		if zero(a) {
			return b
		}
		if zero(b) {
			return a
		}
		if op == "bvor" && (ones(a) || ones(b)) {
			return BVC(mask(w), w)
		}
		if op == "bvor" && a == b {
			return a
		}
		if op == "bvor" {
			if r := orDisjoint(a, b); r != nil {
				return r
			}
		}
		if op == "bvxor" && a == b {
			return BVU(0, w)
		}
	case "bvsub":
		if zero(b) {
			return a
		}
		if a == b {
			return BVU(0, w)
		}
	case "bvand":
		if zero(a) || zero(b) {
			return BVU(0, w)
		}
		if ones(a) {
			return b
		}
		if ones(b) {
			return a
		}
		if a == b {
			return a
		}
		// x & (2^k - 1)  =  0…0 ++ x[k-1:0]
		{
			x, c := a, b
			if x.Op == "bvconst" {
				x, c = b, a
			}
			if c.Op == "bvconst" && c.C.Sign() != 0 {
				// contiguous mask covering bits [h:l]
				h := c.C.BitLen() - 1
				l := int(c.C.TrailingZeroBits())
				if new(big.Int).Rsh(c.C, uint(l)).Cmp(mask(h-l+1)) == 0 && !(h == w-1 && l == 0) {
					r := Extract(x, h, l)
					if l > 0 {
						r = Concat(r, BVU(0, l))
					}
					if h < w-1 {
						r = Concat(BVU(0, w-1-h), r)
					}
					return r
				}
			}
		}
	case "bvshl", "bvlshr", "bvashr":
		if zero(b) {
			return a
		}
		if zero(a) {
			return a
		}
		if b.Op == "bvconst" && op != "bvashr" && b.C.Cmp(big.NewInt(int64(w))) >= 0 {
			return BVU(0, w)
		}
		// constant shift as extract/concat (helps the solver)
		if b.Op == "bvconst" && b.C.IsUint64() && b.C.Uint64() < uint64(w) {
			k := int(b.C.Uint64())
			switch op {
			case "bvshl":
				return Concat(Extract(a, w-k-1, 0), BVU(0, k))
			case "bvlshr":
				return Concat(BVU(0, k), Extract(a, w-1, k))
			case "bvashr":
				return SignExt(Extract(a, w-1, k), k)
			}
		}
		if b.Op == "bvconst" && op == "bvashr" && b.C.Cmp(big.NewInt(int64(w))) >= 0 {
			return SignExt(Extract(a, w-1, w-1), w-1)
		}
	case "bvudiv":
		// division of zero-extended operands needs only their own width
		if a.Op == "zero_extend" && b.Op == "zero_extend" {
			ia, ib := a.Args[0], b.Args[0]
			iw := ia.S.W
			if ib.S.W > iw {
				iw = ib.S.W
			}
			if iw < w {
				x, y := ZeroExt(ia, iw-ia.S.W), ZeroExt(ib, iw-ib.S.W)
				return Ite(Eq(y, BVU(0, iw)), BVC(mask(w), w), ZeroExt(bvbin("bvudiv", x, y), w-iw))
			}
		}
	case "bvmul":
		if zero(a) || zero(b) {
			return BVU(0, w)
		}
		if a.Op == "bvconst" && a.C.Cmp(big.NewInt(1)) == 0 {
			return b
		}
		if b.Op == "bvconst" && b.C.Cmp(big.NewInt(1)) == 0 {
			return a
		}
	}
	if (op == "bvadd" || op == "bvmul" || op == "bvand" || op == "bvor" || op == "bvxor") && a.ID > b.ID {
		a, b = b, a
	}
	return mk(op, a.S, "", nil, [2]int{}, a, b)
}

// zeroMask returns the bits of t that are structurally known to be zero.
func zeroMask(t *Term, depth int) *big.Int {
	w := t.S.W
	switch t.Op {
	case "bvconst":
		return new(big.Int).AndNot(mask(w), t.C)
	case "zero_extend":
		m := new(big.Int).Lsh(mask(t.P[0]), uint(t.Args[0].S.W))
		if depth < 8 {
			m.Or(m, zeroMask(t.Args[0], depth+1))
		}
		return m
	case "concat":
		if depth >= 8 {
			return new(big.Int)
		}
		hi := new(big.Int).Lsh(zeroMask(t.Args[0], depth+1), uint(t.Args[1].S.W))
		return hi.Or(hi, zeroMask(t.Args[1], depth+1))
	case "bvor":
		if depth >= 8 {
			return new(big.Int)
		}
		return new(big.Int).And(zeroMask(t.Args[0], depth+1), zeroMask(t.Args[1], depth+1))
	}
	return new(big.Int)
}

// orDisjoint rewrites a|b as a concatenation of pieces of a and b when every
// bit is known to be zero in at least one operand (bytes re-assembled by
// shift-and-or): the pieces then merge back into the term they were cut from.
func orDisjoint(a, b *Term) *Term {
	w := a.S.W
	if w > 4096 {
		return nil
	}
	za, zb := zeroMask(a, 0), zeroMask(b, 0)
	if za.Sign() == 0 && zb.Sign() == 0 {
		return nil
	}
	if new(big.Int).Or(za, zb).Cmp(mask(w)) != 0 {
		return nil
	}
	// runs from the most significant bit down; source 0: zeros, 1: a, 2: b
	src := func(i int) int {
		az, bz := za.Bit(i) == 1, zb.Bit(i) == 1
		switch {
		case az && bz:
			return 0
		case az:
			return 2
		default:
			return 1
		}
	}
	var r *Term
	hi := w - 1
	for hi >= 0 {
		s0 := src(hi)
		lo := hi
		for lo > 0 && src(lo-1) == s0 {
			lo--
		}
		var piece *Term
		switch s0 {
		case 0:
			piece = BVU(0, hi-lo+1)
		case 1:
			piece = Extract(a, hi, lo)
		default:
			piece = Extract(b, hi, lo)
		}
		if r == nil {
			r = piece
		} else {
			r = Concat(r, piece)
		}
		hi = lo - 1
	}
	return r
}

// linearCancel rewrites a±b when atoms cancel or constants merge:
// (x + 2) - x = 2, (x + 1) + 1 = x + 2. It returns nil when the linear form
// is no smaller than the operands (the term is then built as written).
func linearCancel(op string, a, b *Term) *Term {
	w := a.S.W
	coef := map[*Term]*big.Int{}
	var order []*Term
	c := new(big.Int)
	occ, consts := 0, 0
	var walk func(t *Term, sign int64, depth int)
	walk = func(t *Term, sign int64, depth int) {
		switch {
		case t.Op == "bvconst":
			consts++
			c.Add(c, new(big.Int).Mul(big.NewInt(sign), t.C))
		case t.Op == "bvadd" && depth < 12:
			walk(t.Args[0], sign, depth+1)
			walk(t.Args[1], sign, depth+1)
		case t.Op == "bvsub" && depth < 12:
			walk(t.Args[0], sign, depth+1)
			walk(t.Args[1], -sign, depth+1)
		case t.Op == "bvneg" && depth < 12:
			walk(t.Args[0], -sign, depth+1)
		default:
			occ++
			if _, ok := coef[t]; !ok {
				coef[t] = new(big.Int)
				order = append(order, t)
			}
			coef[t].Add(coef[t], big.NewInt(sign))
		}
	}
	walk(a, 1, 0)
	if op == "bvadd" {
		walk(b, 1, 0)
	} else {
		walk(b, -1, 0)
	}
	var pos, neg []*Term
	left := 0
	for _, t := range order {
		k := norm(coef[t], w)
		switch {
		case k.Sign() == 0:
		case k.Cmp(big.NewInt(1)) == 0:
			pos = append(pos, t)
			left++
		case k.Cmp(mask(w)) == 0:
			neg = append(neg, t)
			left++
		default:
			return nil
		}
	}
	if left >= occ && consts <= 1 {
		return nil
	}
	cn := norm(c, w)
	var r *Term
	for _, t := range pos {
		if r == nil {
			r = t
		} else {
			r = mkbin("bvadd", r, t)
		}
	}
	if r == nil {
		if len(neg) == 0 {
			return BVC(cn, w)
		}
		r = BVC(cn, w)
		cn = new(big.Int)
		if r.C.Sign() == 0 && len(neg) == 1 {
			return BVNeg(neg[0])
		}
	}
	for _, t := range neg {
		r = mkbin("bvsub", r, t)
	}
	if cn.Sign() != 0 {
		r = mkbin("bvadd", r, BVC(cn, w))
	}
	return r
}

func mkbin(op string, a, b *Term) *Term {
	if op == "bvadd" && a.ID > b.ID {
		a, b = b, a
	}
	return mk(op, a.S, "", nil, [2]int{}, a, b)
}

func BVAdd(a, b *Term) *Term  { return bvbin("bvadd", a, b) }
func BVSub(a, b *Term) *Term  { return bvbin("bvsub", a, b) }
func BVMul(a, b *Term) *Term  { return bvbin("bvmul", a, b) }
func BVAnd(a, b *Term) *Term  { return bvbin("bvand", a, b) }
func BVOr(a, b *Term) *Term   { return bvbin("bvor", a, b) }
func BVXor(a, b *Term) *Term  { return bvbin("bvxor", a, b) }
func BVUDiv(a, b *Term) *Term { return bvbin("bvudiv", a, b) }
func BVURem(a, b *Term) *Term { return bvbin("bvurem", a, b) }
func BVSDiv(a, b *Term) *Term { return bvbin("bvsdiv", a, b) }
func BVSRem(a, b *Term) *Term { return bvbin("bvsrem", a, b) }
func BVShl(a, b *Term) *Term  { return bvbin("bvshl", a, b) }
func BVLshr(a, b *Term) *Term { return bvbin("bvlshr", a, b) }
func BVAshr(a, b *Term) *Term { return bvbin("bvashr", a, b) }

func BVNot(a *Term) *Term {
	if a.Op == "bvconst" {
		return BVC(new(big.Int).Xor(a.C, mask(a.S.W)), a.S.W)
	}
	if a.Op == "bvnot" {
		return a.Args[0]
	}
	return mk("bvnot", a.S, "", nil, [2]int{}, a)
}

func BVNeg(a *Term) *Term {
	if a.Op == "bvconst" {
		return BVC(new(big.Int).Neg(a.C), a.S.W)
	}
	return mk("bvneg", a.S, "", nil, [2]int{}, a)
}

func bvcmp(op string, a, b *Term) *Term {
	if a.S != b.S || a.S.K != KBV {
		panic(fmt.Sprintf("smt.%s: sort mismatch %s vs %s", op, a.S, b.S))
	}
	w := a.S.W
	if a.Op == "bvconst" && b.Op == "bvconst" {
		var c int
		if op == "bvult" || op == "bvule" {
			c = a.C.Cmp(b.C)
		} else {
			c = signed(a.C, w).Cmp(signed(b.C, w))
		}
		if op == "bvult" || op == "bvslt" {
			return BoolC(c < 0)
		}
		return BoolC(c <= 0)
	}
	if a == b {
		return BoolC(op == "bvule" || op == "bvsle")
	}
	if op == "bvult" && b.Op == "bvconst" && b.C.Sign() == 0 {
		return False
	}
	if op == "bvult" && a.Op == "bvconst" && a.C.Sign() == 0 {
		return Not(Eq(b, a))
	}
	if op == "bvule" && b.Op == "bvconst" && b.C.Sign() == 0 {
		return Eq(a, b)
	}
	if op == "bvule" && a.Op == "bvconst" && a.C.Sign() == 0 {
		return True
	}
	return mk(op, Bool, "", nil, [2]int{}, a, b)
}

func BVUlt(a, b *Term) *Term { return bvcmp("bvult", a, b) }
func BVUle(a, b *Term) *Term { return bvcmp("bvule", a, b) }
func BVSlt(a, b *Term) *Term { return bvcmp("bvslt", a, b) }
func BVSle(a, b *Term) *Term { return bvcmp("bvsle", a, b) }

func Extract(a *Term, hi, lo int) *Term {
	w := a.S.W
	if hi >= w || lo < 0 || hi < lo {
		panic(fmt.Sprintf("smt.Extract: [%d:%d] of width %d", hi, lo, w))
	}
	if lo == 0 && hi == w-1 {
		return a
	}
	if a.Op == "bvconst" {
		return BVC(new(big.Int).Rsh(a.C, uint(lo)), hi-lo+1)
	}
	if a.Op == "extract" {
		return Extract(a.Args[0], hi+a.P[1], lo+a.P[1])
	}
	if a.Op == "concat" {
		lw := a.Args[1].S.W
		if hi < lw {
			return Extract(a.Args[1], hi, lo)
		}
		if lo >= lw {
			return Extract(a.Args[0], hi-lw, lo-lw)
		}
		return Concat(Extract(a.Args[0], hi-lw, 0), Extract(a.Args[1], lw-1, lo))
	}
	if a.Op == "zero_extend" {
		iw := a.Args[0].S.W
		if hi < iw {
			return Extract(a.Args[0], hi, lo)
		}
		if lo >= iw {
			return BVU(0, hi-lo+1)
		}
		return ZeroExt(Extract(a.Args[0], iw-1, lo), hi-iw+1)
	}
	if a.Op == "sign_extend" {
		iw := a.Args[0].S.W
		if hi < iw {
			return Extract(a.Args[0], hi, lo)
		}
		if lo >= iw {
			return SignExt(Extract(a.Args[0], iw-1, iw-1), hi-lo)
		}
		return SignExt(Extract(a.Args[0], iw-1, lo), hi-iw+1)
	}
	// the low bits of a sum/product depend only on the low bits of the
	// operands; bitwise operators commute with extraction anywhere
	switch a.Op {
	case "bvand", "bvor", "bvxor":
		return bvbin(a.Op, Extract(a.Args[0], hi, lo), Extract(a.Args[1], hi, lo))
	case "bvnot":
		return BVNot(Extract(a.Args[0], hi, lo))
	case "ite":
		return Ite(a.Args[0], Extract(a.Args[1], hi, lo), Extract(a.Args[2], hi, lo))
	}
	return mk("extract", BV(hi-lo+1), "", nil, [2]int{hi, lo}, a)
}

func Concat(hi, lo *Term) *Term {
	if hi.Op == "bvconst" && lo.Op == "bvconst" {
		v := new(big.Int).Lsh(hi.C, uint(lo.S.W))
		v.Or(v, lo.C)
		return BVC(v, hi.S.W+lo.S.W)
	}
	// concat(extract(x,h,m+1), extract(x,m,l)) = extract(x,h,l)
	if hi.Op == "extract" && lo.Op == "extract" && hi.Args[0] == lo.Args[0] && hi.P[1] == lo.P[0]+1 {
		return Extract(hi.Args[0], hi.P[0], lo.P[1])
	}
	// replication of lo's top bit above lo is a sign extension
	if hx, ht, ok := replicatedBit(hi); ok {
		if lx, lt := topBit(lo); lx == hx && lt == ht {
			return SignExt(lo, hi.S.W)
		}
	}
	// zeros above a term are a zero extension
	if hi.Op == "bvconst" && hi.C.Sign() == 0 {
		return ZeroExt(lo, hi.S.W)
	}
	// concat(zero_extend(a), b) = zero_extend(concat(a, b))
	if hi.Op == "zero_extend" {
		return ZeroExt(Concat(hi.Args[0], lo), hi.P[0])
	}
	return mk("concat", BV(hi.S.W+lo.S.W), "", nil, [2]int{}, hi, lo)
}

func ZeroExt(a *Term, n int) *Term {
	if n == 0 {
		return a
	}
	if a.Op == "bvconst" {
		return BVC(a.C, a.S.W+n)
	}
	if a.Op == "zero_extend" {
		return ZeroExt(a.Args[0], n+a.P[0])
	}
	return mk("zero_extend", BV(a.S.W+n), "", nil, [2]int{n, 0}, a)
}

func SignExt(a *Term, n int) *Term {
	if n == 0 {
		return a
	}
	if a.Op == "bvconst" {
		return BVC(signed(a.C, a.S.W), a.S.W+n)
	}
	if a.Op == "sign_extend" {
		return SignExt(a.Args[0], n+a.P[0])
	}
	return mk("sign_extend", BV(a.S.W+n), "", nil, [2]int{n, 0}, a)
}

// Resize zero-extends or truncates to w bits.
func Resize(a *Term, w int) *Term {
	if a.S.W == w {
		return a
	}
	if a.S.W > w {
		return truncLow(a, w)
	}
	return ZeroExt(a, w-a.S.W)
}

// truncLow keeps the low w bits of a. The low bits of a sum, difference,
// product or negation depend only on the low bits of the operands, so the
// truncation is pushed inside when that makes the operands smaller (they are
// extensions or constants). It is used for semantic truncations (Resize) and
// when the bytes of a value are re-assembled, never when single bytes are cut
// out, so that bytes can always be re-assembled into the term they came from.
// NormLow re-applies truncLow to a value that was re-assembled from bytes:
// extract[h:0](x) becomes the pushed-in truncation of x.
func NormLow(t *Term) *Term {
	if t.Op == "extract" && t.P[1] == 0 {
		return truncLow(t.Args[0], t.P[0]+1)
	}
	return t
}

func truncLow(a *Term, w int) *Term {
	switch a.Op {
	case "bvmul", "bvadd", "bvsub":
		ea, eb := truncLow(a.Args[0], w), truncLow(a.Args[1], w)
		if ea.Op != "extract" && eb.Op != "extract" {
			return bvbin(a.Op, ea, eb)
		}
	case "bvneg":
		ea := truncLow(a.Args[0], w)
		if ea.Op != "extract" {
			return BVNeg(ea)
		}
	}
	return Extract(a, w-1, 0)
}

// SResize sign-extends or truncates to w bits.
func SResize(a *Term, w int) *Term {
	if a.S.W == w {
		return a
	}
	if a.S.W > w {
		return Extract(a, w-1, 0)
	}
	return SignExt(a, w-a.S.W)
}

// ---------- Int ----------

func intbin(op string, a, b *Term) *Term {
	if a.Op == "intconst" && b.Op == "intconst" {
		r := new(big.Int)
		switch op {
		case "+":
			return IntBig(r.Add(a.C, b.C))
		case "-":
			return IntBig(r.Sub(a.C, b.C))
		case "*":
			return IntBig(r.Mul(a.C, b.C))
		}
	}
	return mk(op, Int, "", nil, [2]int{}, a, b)
}
func IAdd(a, b *Term) *Term { return intbin("+", a, b) }
func ISub(a, b *Term) *Term { return intbin("-", a, b) }
func IMul(a, b *Term) *Term { return intbin("*", a, b) }
func ILt(a, b *Term) *Term {
	if a.Op == "intconst" && b.Op == "intconst" {
		return BoolC(a.C.Cmp(b.C) < 0)
	}
	return mk("<", Bool, "", nil, [2]int{}, a, b)
}
func ILe(a, b *Term) *Term {
	if a.Op == "intconst" && b.Op == "intconst" {
		return BoolC(a.C.Cmp(b.C) <= 0)
	}
	return mk("<=", Bool, "", nil, [2]int{}, a, b)
}

// ---------- Arrays ----------

func Select(a, i *Term) *Term {
	if a.S.K != KArray {
		panic("smt.Select: not an array: " + a.S.String())
	}
	if a.S.Idx != i.S {
		panic(fmt.Sprintf("smt.Select: index sort %s, want %s", i.S, a.S.Idx))
	}
	// read-over-write with syntactically decidable indices
	for a.Op == "store" {
		j := a.Args[1]
		if j == i {
			return a.Args[2]
		}
		if j.IsConst() && i.IsConst() {
			a = a.Args[0]
			continue
		}
		break
	}
	if a.Op == "constarray" {
		return a.Args[0]
	}
	return mk("select", a.S.Elem, "", nil, [2]int{}, a, i)
}

func Store(a, i, v *Term) *Term {
	if a.S.K != KArray || a.S.Idx != i.S || a.S.Elem != v.S {
		panic(fmt.Sprintf("smt.Store: sorts %s[%s] := %s", a.S, i.S, v.S))
	}
	return mk("store", a.S, "", nil, [2]int{}, a, i, v)
}

func ConstArray(s *Sort, v *Term) *Term {
	return mk("constarray", s, "", nil, [2]int{}, v)
}

// ---------- Quantifiers ----------

func Forall(vars []*Term, body *Term) *Term {
	if body.IsTrue() || body.IsFalse() || len(vars) == 0 {
		return body
	}
	t := mk("forall", Bool, "", nil, [2]int{len(vars), 0}, append(append([]*Term{}, vars...), body)...)
	t = fixBound(t)
	return t
}

func Exists(vars []*Term, body *Term) *Term {
	if body.IsTrue() || body.IsFalse() || len(vars) == 0 {
		return body
	}
	t := mk("exists", Bool, "", nil, [2]int{len(vars), 0}, append(append([]*Term{}, vars...), body)...)
	t = fixBound(t)
	return t
}

// fixBound recomputes the Bound flag of a quantifier: it is bound only if
// its body mentions a bound variable other than its own.
func fixBound(q *Term) *Term {
	n := q.P[0]
	own := map[int]bool{}
	for _, v := range q.Args[:n] {
		own[v.ID] = true
	}
	free := false
	seen := map[int]bool{}
	var walk func(t *Term)
	walk = func(t *Term) {
		if free || !t.Bound || seen[t.ID] {
			return
		}
		seen[t.ID] = true
		if t.Op == "bound" {
			if !own[t.ID] {
				free = true
			}
			return
		}
		if (t.Op == "forall" || t.Op == "exists") && t != q {
			// inner quantifier: its own variables are not free, but
			// being conservative costs nothing
		}
		for _, a := range t.Args {
			walk(a)
		}
	}
	walk(q.Args[n])
	mu.Lock()
	q.Bound = free
	mu.Unlock()
	return q
}

// Subst replaces variables (by ID) in t.
func Subst(t *Term, m map[int]*Term) *Term {
	cache := map[int]*Term{}
	var rec func(t *Term) *Term
	rec = func(t *Term) *Term {
		if r, ok := m[t.ID]; ok {
			return r
		}
		if len(t.Args) == 0 {
			return t
		}
		if r, ok := cache[t.ID]; ok {
			return r
		}
		args := make([]*Term, len(t.Args))
		ch := false
		for i, a := range t.Args {
			args[i] = rec(a)
			if args[i] != a {
				ch = true
			}
		}
		r := t
		if ch {
			r = Rebuild(t, args)
		}
		cache[t.ID] = r
		return r
	}
	return rec(t)
}

// Rebuild re-applies t's operator to new arguments (with simplification).
func Rebuild(t *Term, a []*Term) *Term {
	switch t.Op {
	case "not":
		return Not(a[0])
	case "and":
		return And(a...)
	case "or":
		return Or(a...)
	case "=>":
		return Implies(a[0], a[1])
	case "ite":
		return Ite(a[0], a[1], a[2])
	case "=":
		return Eq(a[0], a[1])
	case "bvadd", "bvsub", "bvmul", "bvand", "bvor", "bvxor", "bvudiv", "bvurem", "bvsdiv", "bvsrem", "bvshl", "bvlshr", "bvashr":
		return bvbin(t.Op, a[0], a[1])
	case "bvnot":
		return BVNot(a[0])
	case "bvneg":
		return BVNeg(a[0])
	case "bvult", "bvule", "bvslt", "bvsle":
		return bvcmp(t.Op, a[0], a[1])
	case "extract":
		return Extract(a[0], t.P[0], t.P[1])
	case "concat":
		return Concat(a[0], a[1])
	case "zero_extend":
		return ZeroExt(a[0], t.P[0])
	case "sign_extend":
		return SignExt(a[0], t.P[0])
	case "select":
		return Select(a[0], a[1])
	case "store":
		return Store(a[0], a[1], a[2])
	case "+", "-", "*":
		return intbin(t.Op, a[0], a[1])
	case "<":
		return ILt(a[0], a[1])
	case "<=":
		return ILe(a[0], a[1])
	case "forall":
		return Forall(a[:t.P[0]], a[t.P[0]])
	case "exists":
		return Exists(a[:t.P[0]], a[t.P[0]])
	}
	if t.Op == "app" && t.P[0] == 1 && len(a) == 2 {
		return AppC(t.Name, t.S, a[0], a[1])
	}
	return mk(t.Op, t.S, t.Name, t.C, t.P, a...)
}

// ---------- Printing ----------

func (t *Term) String() string {
	var sb strings.Builder
	t.write(&sb, nil)
	return sb.String()
}

func (t *Term) head() string {
	switch t.Op {
	case "extract":
		return fmt.Sprintf("(_ extract %d %d)", t.P[0], t.P[1])
	case "zero_extend":
		return fmt.Sprintf("(_ zero_extend %d)", t.P[0])
	case "sign_extend":
		return fmt.Sprintf("(_ sign_extend %d)", t.P[0])
	case "app":
		return t.Name
	case "constarray":
		return fmt.Sprintf("(as const %s)", t.S)
	}
	return t.Op
}

func (t *Term) write(sb *strings.Builder, named map[int]string) {
	if named != nil {
		if n, ok := named[t.ID]; ok {
			sb.WriteString(n)
			return
		}
	}
	switch t.Op {
	case "true", "false":
		sb.WriteString(t.Op)
	case "bvconst":
		if t.S.W%4 == 0 {
			s := t.C.Text(16)
			sb.WriteString("#x")
			sb.WriteString(strings.Repeat("0", t.S.W/4-len(s)))
			sb.WriteString(s)
		} else {
			s := t.C.Text(2)
			sb.WriteString("#b")
			sb.WriteString(strings.Repeat("0", t.S.W-len(s)))
			sb.WriteString(s)
		}
	case "intconst":
		if t.C.Sign() < 0 {
			fmt.Fprintf(sb, "(- %s)", new(big.Int).Neg(t.C).String())
		} else {
			sb.WriteString(t.C.String())
		}
	case "var", "bound":
		sb.WriteString(t.Name)
	case "forall", "exists":
		n := t.P[0]
		sb.WriteString("(" + t.Op + " (")
		for _, v := range t.Args[:n] {
			fmt.Fprintf(sb, "(%s %s)", v.Name, v.S)
		}
		sb.WriteString(") ")
		t.Args[n].write(sb, named)
		sb.WriteString(")")
	default:
		if len(t.Args) == 0 {
			sb.WriteString(t.head())
			return
		}
		sb.WriteString("(")
		sb.WriteString(t.head())
		for _, a := range t.Args {
			sb.WriteString(" ")
			a.write(sb, named)
		}
		sb.WriteString(")")
	}
}

// FreeVars returns the free variables of the given terms, sorted by name.
func FreeVars(ts ...*Term) []*Term {
	seen := map[int]bool{}
	var out []*Term
	var walk func(t *Term)
	walk = func(t *Term) {
		if seen[t.ID] {
			return
		}
		seen[t.ID] = true
		if t.Op == "var" {
			out = append(out, t)
		}
		for _, a := range t.Args {
			walk(a)
		}
	}
	for _, t := range ts {
		walk(t)
	}
	sort.Slice(out, func(i, j int) bool { return out[i].Name < out[j].Name })
	return out
}

// Apps returns the distinct uninterpreted applications' symbols with their
// signatures, sorted by name.
type FuncSig struct {
	Name string
	Args []*Sort
	Ret  *Sort
}

func UsedFuncs(ts ...*Term) []FuncSig {
	seen := map[int]bool{}
	sigs := map[string]FuncSig{}
	var walk func(t *Term)
	walk = func(t *Term) {
		if seen[t.ID] {
			return
		}
		seen[t.ID] = true
		if t.Op == "app" {
			if _, ok := sigs[t.Name]; !ok {
				var as []*Sort
				for _, a := range t.Args {
					as = append(as, a.S)
				}
				sigs[t.Name] = FuncSig{t.Name, as, t.S}
			}
		}
		for _, a := range t.Args {
			walk(a)
		}
	}
	for _, t := range ts {
		walk(t)
	}
	var out []FuncSig
	for _, s := range sigs {
		out = append(out, s)
	}
	sort.Slice(out, func(i, j int) bool { return out[i].Name < out[j].Name })
	return out
}

// Size is the DAG size of the terms.
func Size(ts ...*Term) int {
	seen := map[int]bool{}
	var walk func(t *Term)
	walk = func(t *Term) {
		if seen[t.ID] {
			return
		}
		seen[t.ID] = true
		for _, a := range t.Args {
			walk(a)
		}
	}
	for _, t := range ts {
		walk(t)
	}
	return len(seen)
}
