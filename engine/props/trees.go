package props

import (
	"fmt"
	"go/ast"
	"go/types"
	"math/rand"
	"strings"

	"gocv/smt"
	"gocv/spec"
	"gocv/sx"
)

// Expression trees of concrete shape with symbolic constant bytes: the input
// space of the bounded checks of internal/exprtransform (C09, C12, C13, C28).

type tdesc struct {
	Kind string // const | zero | reg | mem | bin | less
	Op   int
	W    int
	Key  string
	Kids []*tdesc
}

func (t *tdesc) String() string {
	switch t.Kind {
	case "const":
		return fmt.Sprintf("c%d", t.W)
	case "zero":
		return "0"
	case "reg":
		return fmt.Sprintf("%s:%d", t.Key, t.W)
	case "mem":
		return fmt.Sprintf("M%d[%s]", t.W, t.Kids[0])
	case "bin":
		ops := []string{"?", "+", "<<", ">>", "*", "/", "nand"}
		return fmt.Sprintf("(%s %s%d %s)", t.Kids[0], ops[t.Op], t.W, t.Kids[1])
	case "less":
		return fmt.Sprintf("(%s <%d %s ? %s : %s)", t.Kids[0], t.W, t.Kids[1], t.Kids[2], t.Kids[3])
	}
	return "?"
}

func (t *tdesc) depth() int {
	d := 0
	for _, k := range t.Kids {
		if kd := k.depth(); kd > d {
			d = kd
		}
	}
	return d + 1
}

func tConst(w int) *tdesc            { return &tdesc{Kind: "const", W: w} }
func tReg(k string, w int) *tdesc    { return &tdesc{Kind: "reg", Key: k, W: w} }
func tMem(a *tdesc, w int) *tdesc    { return &tdesc{Kind: "mem", Key: "m", W: w, Kids: []*tdesc{a}} }
func tBin(op int, a, b *tdesc, w int) *tdesc {
	return &tdesc{Kind: "bin", Op: op, W: w, Kids: []*tdesc{a, b}}
}
func tLess(a, b, t, f *tdesc, w int) *tdesc {
	return &tdesc{Kind: "less", W: w, Kids: []*tdesc{a, b, t, f}}
}

// tGadget is exprtools.NewWidthGadget(e, w) = Binary(Add, e, Zero, w).
func tGadget(e *tdesc, w int) *tdesc { return tBin(1, e, &tdesc{Kind: "zero", W: 1}, w) }

// treeCorpus builds the list of trees for a tier: a systematic part (every
// node kind, every operator, operand widths below/equal/above the operation
// width, width-adapter chains, loads with adapted and constant addresses,
// conditionals with constant and symbolic conditions) and a seeded random part.
func treeCorpus(tier string, seed int64) []*tdesc {
	ws := []int{1, 2, 4}
	var out []*tdesc
	add := func(t ...*tdesc) { out = append(out, t...) }
	// leaves
	for _, w := range ws {
		add(tConst(w), tReg("r1", w))
	}
	add(tMem(tConst(8), 2), tMem(tReg("r1", 8), 4), tMem(tReg("r1", 2), 1))
	// binary operators over all operand kinds and width relations
	for op := 1; op <= 6; op++ {
		for _, w := range []int{1, 2} {
			add(tBin(op, tConst(w), tConst(w), w))
			add(tBin(op, tConst(1), tConst(4), w))
			add(tBin(op, tReg("r1", w), tConst(w), w))
			add(tBin(op, tConst(2), tReg("r2", 1), w))
			add(tBin(op, tReg("r1", 2), tReg("r2", 4), w))
		}
		add(tBin(op, tBin(1, tConst(2), tConst(1), 2), tReg("r1", 2), 4))
		add(tBin(op, tBin(op, tConst(1), tConst(1), 2), tBin(6, tConst(2), tConst(2), 1), 2))
	}
	// conditionals
	for _, w := range []int{1, 2} {
		add(tLess(tConst(w), tConst(w), tConst(w), tReg("r1", w), w))
		add(tLess(tConst(2), tConst(1), tReg("r1", 4), tConst(1), w))
		add(tLess(tReg("r1", w), tConst(w), tConst(1), tConst(4), w))
		add(tLess(tReg("r1", 2), tReg("r2", 2), tReg("r1", 1), tReg("r2", 4), w))
		add(tLess(tConst(1), tConst(1), tLess(tReg("r1", 1), tConst(1), tConst(2), tReg("r2", 2), 2), tConst(4), w))
		add(tBin(1, tLess(tReg("r1", 1), tReg("r2", 1), tConst(1), tConst(2), 2), tLess(tReg("r2", 1), tConst(1), tReg("r1", 2), tConst(1), 1), w))
		add(tLess(tBin(1, tConst(1), tConst(1), 1), tConst(1), tBin(4, tConst(1), tConst(2), 2), tReg("r1", 1), w))
	}
	// width adapters: every relation of (context, adapter, argument) widths
	for _, cw := range ws {
		for _, gw := range ws {
			for _, aw := range ws {
				add(tBin(1, tGadget(tReg("r1", aw), gw), tReg("r2", cw), cw))
			}
		}
	}
	add(tGadget(tGadget(tReg("r1", 4), 1), 4), tGadget(tGadget(tReg("r1", 1), 4), 2), tGadget(tGadget(tGadget(tConst(2), 2), 2), 2))
	add(tGadget(tReg("r1", 2), 2), tGadget(tConst(4), 2), tGadget(tLess(tReg("r1", 1), tConst(1), tConst(1), tConst(2), 2), 1))
	// loads: adapted, computed and constant addresses; a load keeps its
	// address at the address' own width
	add(tMem(tGadget(tReg("r1", 2), 1), 1), tMem(tGadget(tReg("r1", 1), 2), 1), tMem(tGadget(tReg("r1", 4), 2), 4))
	add(tMem(tGadget(tGadget(tReg("r1", 2), 1), 2), 1), tMem(tBin(1, tConst(8), tConst(8), 8), 2), tMem(tBin(1, tReg("r1", 8), tConst(2), 8), 4))
	add(tMem(tLess(tReg("r1", 1), tConst(1), tConst(8), tReg("r2", 8), 8), 1), tBin(1, tMem(tGadget(tReg("r1", 2), 1), 1), tConst(1), 2))
	add(tMem(tMem(tGadget(tReg("r1", 4), 2), 2), 1), tLess(tMem(tConst(1), 1), tConst(1), tMem(tGadget(tReg("r1", 2), 1), 2), tConst(2), 2))
	// random part
	n := 60
	if tier == "thorough" {
		n = 1500
	}
	rng := rand.New(rand.NewSource(seed*7919 + 17))
	var gen func(d int) *tdesc
	gen = func(d int) *tdesc {
		w := ws[rng.Intn(len(ws))]
		if d <= 1 || rng.Intn(4) == 0 {
			switch rng.Intn(5) {
			case 0, 1:
				return tConst(w)
			case 2:
				return tReg("r1", w)
			case 3:
				return tReg("r2", w)
			default:
				return tMem(tConst(ws[rng.Intn(3)]), w)
			}
		}
		switch rng.Intn(8) {
		case 0, 1, 2:
			return tBin(1+rng.Intn(6), gen(d-1), gen(d-1), w)
		case 3, 4:
			return tLess(gen(d-1), gen(d-1), gen(d-1), gen(d-1), w)
		case 5:
			return tMem(gen(d-1), w)
		default:
			return tGadget(gen(d-1), w)
		}
	}
	for i := 0; i < n; i++ {
		add(gen(2 + rng.Intn(2)))
	}
	return out
}

// buildTree constructs the expr.Expr value of a descriptor; every constant
// gets fresh symbolic bytes named after its position.
func (c *Ctx) buildTree(p *sx.Path, t *tdesc, pos string) sx.Val {
	T := c.IR
	w8 := func(w int) sx.Val { return smt.BVU(uint64(w), 8) }
	switch t.Kind {
	case "const":
		bs := make([]*smt.Term, t.W)
		for i := range bs {
			bs[i] = smt.Var(fmt.Sprintf("k%s.%d", pos, i), smt.BV(8))
		}
		return T.MkConst(p, bs)
	case "zero":
		return T.MkConst(p, []*smt.Term{smt.BVU(0, 8)})
	case "reg":
		return sx.Iface{T: T.RegLoad, V: &sx.Struct{F: []sx.Val{sx.Str{S: t.Key}, w8(t.W)}}}
	case "mem":
		return sx.Iface{T: T.MemLoad, V: &sx.Struct{F: []sx.Val{sx.Str{S: t.Key}, c.buildTree(p, t.Kids[0], pos+"a"), w8(t.W)}}}
	case "bin":
		return sx.Iface{T: T.Binary, V: &sx.Struct{F: []sx.Val{smt.BVU(uint64(t.Op), 8), c.buildTree(p, t.Kids[0], pos+"l"), c.buildTree(p, t.Kids[1], pos+"r"), w8(t.W)}}}
	case "less":
		return sx.Iface{T: T.Less, V: &sx.Struct{F: []sx.Val{c.buildTree(p, t.Kids[0], pos+"a"), c.buildTree(p, t.Kids[1], pos+"b"), c.buildTree(p, t.Kids[2], pos+"t"), c.buildTree(p, t.Kids[3], pos+"f"), w8(t.W)}}}
	}
	panic("bad tree descriptor")
}

// ---- structural predicates over concrete-shape trees ----

type exprNode struct {
	Kind string
	S    *sx.Struct
	Kids []sx.Val
}

func (c *Ctx) node(v sx.Val) exprNode {
	e, ok := v.(sx.Iface)
	if !ok || e.T == nil {
		panic(spec.EvalError{Msg: "nil or non-expression value where an expression is expected"})
	}
	s := e.V.(*sx.Struct)
	T := c.IR
	switch {
	case types.Identical(e.T, T.Const):
		return exprNode{Kind: "const", S: s}
	case types.Identical(e.T, T.RegLoad):
		return exprNode{Kind: "reg", S: s}
	case types.Identical(e.T, T.MemLoad):
		return exprNode{Kind: "mem", S: s, Kids: []sx.Val{s.F[1]}}
	case types.Identical(e.T, T.Binary):
		return exprNode{Kind: "bin", S: s, Kids: []sx.Val{s.F[1], s.F[2]}}
	case types.Identical(e.T, T.Less):
		return exprNode{Kind: "less", S: s, Kids: []sx.Val{s.F[0], s.F[1], s.F[2], s.F[3]}}
	}
	panic(spec.EvalError{Msg: "not an expression: " + e.T.String()})
}

func (c *Ctx) isConstTree(v sx.Val) bool {
	n := c.node(v)
	switch n.Kind {
	case "const":
		return true
	case "reg", "mem":
		return false
	}
	for _, k := range n.Kids {
		if !c.isConstTree(k) {
			return false
		}
	}
	return true
}

func (c *Ctx) condFree(v sx.Val) bool {
	n := c.node(v)
	if n.Kind == "less" {
		return false
	}
	for _, k := range n.Kids {
		if !c.condFree(k) {
			return false
		}
	}
	return true
}

// noConstOp: no binary operation and no comparison whose operands are all
// constants remains anywhere in the tree.
func (c *Ctx) noConstOp(v sx.Val) bool {
	n := c.node(v)
	switch n.Kind {
	case "bin", "less":
		if c.node(n.Kids[0]).Kind == "const" && c.node(n.Kids[1]).Kind == "const" {
			return false
		}
	}
	for _, k := range n.Kids {
		if !c.noConstOp(k) {
			return false
		}
	}
	return true
}

// sameExpr is structural equality (shape, operators, widths, keys) with the
// constants' bytes compared symbolically.
func (c *Ctx) sameExpr(p *sx.Path, a, b sx.Val) *smt.Term {
	x, y := c.node(a), c.node(b)
	if x.Kind != y.Kind {
		return smt.False
	}
	switch x.Kind {
	case "const":
		ea, eb := p.SliceElems(x.S.F[0].(sx.Slice)), p.SliceElems(y.S.F[0].(sx.Slice))
		if len(ea) != len(eb) {
			return smt.False
		}
		r := smt.True
		for i := range ea {
			r = smt.And(r, smt.Eq(ea[i].(*smt.Term), eb[i].(*smt.Term)))
		}
		return r
	case "reg":
		return smt.And(p.StrEq(x.S.F[0].(sx.Str), y.S.F[0].(sx.Str)), smt.Eq(x.S.F[1].(*smt.Term), y.S.F[1].(*smt.Term)))
	case "mem":
		return smt.And(p.StrEq(x.S.F[0].(sx.Str), y.S.F[0].(sx.Str)), smt.Eq(x.S.F[2].(*smt.Term), y.S.F[2].(*smt.Term)), c.sameExpr(p, x.Kids[0], y.Kids[0]))
	case "bin":
		return smt.And(smt.Eq(x.S.F[0].(*smt.Term), y.S.F[0].(*smt.Term)), smt.Eq(x.S.F[3].(*smt.Term), y.S.F[3].(*smt.Term)), c.sameExpr(p, x.Kids[0], y.Kids[0]), c.sameExpr(p, x.Kids[1], y.Kids[1]))
	case "less":
		r := smt.Eq(x.S.F[4].(*smt.Term), y.S.F[4].(*smt.Term))
		for i := range x.Kids {
			r = smt.And(r, c.sameExpr(p, x.Kids[i], y.Kids[i]))
		}
		return r
	}
	return smt.False
}

// preorder lists the nodes of a tree in pre-order.
func (c *Ctx) preorder(v sx.Val, out *[]sx.Val) {
	*out = append(*out, v)
	for _, k := range c.node(v).Kids {
		c.preorder(k, out)
	}
}

func (c *Ctx) installTreeBuiltins(ev *spec.Eval, trees []*tdesc) {
	B := ev.Builtins
	p := ev.P
	exprT := c.P.SSA["mltwist/pkg/expr"].Type("Expr").Type()
	B["tree"] = func(ev *spec.Eval, a []ast.Expr) spec.TV {
		k := constArg(ev, a[0], "tree index")
		sfx := ""
		if len(a) > 1 {
			sfx = strArg(ev, a[1])
		}
		if k < 0 || int(k) >= len(trees) {
			panic(spec.EvalError{Msg: "tree index out of range"})
		}
		return spec.TV{V: c.buildTree(p, trees[k], sfx), T: exprT}
	}
	boolB := func(f func(v sx.Val) bool) spec.Builtin {
		return func(ev *spec.Eval, a []ast.Expr) spec.TV {
			return spec.TV{V: smt.BoolC(f(asIface(ev.Eval(a[0]))))}
		}
	}
	B["isconsttree"] = boolB(c.isConstTree)
	B["condfree"] = boolB(c.condFree)
	B["noconstop"] = boolB(c.noConstOp)
	B["isconst"] = boolB(func(v sx.Val) bool { return c.node(v).Kind == "const" })
	B["sameexpr"] = func(ev *spec.Eval, a []ast.Expr) spec.TV {
		return spec.TV{V: c.sameExpr(p, asIface(ev.Eval(a[0])), asIface(ev.Eval(a[1])))}
	}
	// apply("pkg.Func", args...): the result of calling a real function of
	// the repository (executed by the interpreter, no obligations recorded)
	B["apply"] = func(ev *spec.Eval, a []ast.Expr) spec.TV {
		name := strArg(ev, a[0])
		fn := c.P.Func(name)
		if fn == nil {
			panic(spec.EvalError{Msg: "apply: no function " + name})
		}
		var args []sx.Val
		for i, x := range a[1:] {
			v := ev.Eval(x)
			pt := fn.Params[i].Type()
			if _, isI := pt.Underlying().(*types.Interface); isI {
				args = append(args, asIface(v))
			} else if v.T == nil {
				args = append(args, smt.BVI(constArg(ev, x, "argument"), sx.SortOf(pt).W))
			} else {
				args = append(args, v.V)
			}
		}
		saved := p.NoSafety
		p.NoSafety = true
		r := p.Call(fn, args, nil, nil)
		p.NoSafety = saved
		var rt types.Type
		if fn.Signature.Results().Len() == 1 {
			rt = fn.Signature.Results().At(0).Type()
		}
		return spec.TV{V: r, T: rt}
	}
	// anyof(list, e): some element of the []expr.Expr has the value of e
	B["anysame"] = func(ev *spec.Eval, a []ast.Expr) spec.TV {
		sl := ev.Eval(a[0]).V.(sx.Slice)
		want := ev.Term(ev.Eval(a[1]))
		d := c.den(p)
		var alts []*smt.Term
		for _, e := range p.SliceElems(sl) {
			t := d.Expr(e)
			if t == nil || t.S != want.S {
				continue
			}
			alts = append(alts, smt.Eq(t, want))
		}
		return spec.TV{V: smt.Or(alts...)}
	}
	// all(list, "pred" [, n]): every element satisfies a structural predicate
	B["allwidth"] = func(ev *spec.Eval, a []ast.Expr) spec.TV {
		sl := ev.Eval(a[0]).V.(sx.Slice)
		w := int(constArg(ev, a[1], "width"))
		d := c.den(p)
		for _, e := range p.SliceElems(sl) {
			if d.Width(e) != w {
				return spec.TV{V: smt.False}
			}
		}
		return spec.TV{V: smt.True}
	}
	B["allcondfree"] = func(ev *spec.Eval, a []ast.Expr) spec.TV {
		sl := ev.Eval(a[0]).V.(sx.Slice)
		for _, e := range p.SliceElems(sl) {
			if !c.condFree(e) {
				return spec.TV{V: smt.False}
			}
		}
		return spec.TV{V: smt.True}
	}
	// memaddrs_kept(a, b): the i-th memory load of a and of b (pre-order)
	// have addresses of the same width and value
	B["memaddrs_kept"] = func(ev *spec.Eval, a []ast.Expr) spec.TV {
		var la, lb []sx.Val
		c.preorder(asIface(ev.Eval(a[0])), &la)
		c.preorder(asIface(ev.Eval(a[1])), &lb)
		var ma, mb []sx.Val
		for _, n := range la {
			if c.node(n).Kind == "mem" {
				ma = append(ma, n)
			}
		}
		for _, n := range lb {
			if c.node(n).Kind == "mem" {
				mb = append(mb, n)
			}
		}
		if len(ma) != len(mb) {
			// loads may disappear only together with the sub-tree they
			// are in (never for these functions): treat as a failure
			return spec.TV{V: smt.False}
		}
		d := c.den(p)
		r := smt.True
		for i := range ma {
			aa, ab := c.node(ma[i]).Kids[0], c.node(mb[i]).Kids[0]
			if d.Width(aa) != d.Width(ab) {
				return spec.TV{V: smt.False}
			}
			r = smt.And(r, smt.Eq(d.Expr(aa), d.Expr(ab)))
		}
		return spec.TV{V: r}
	}
	_ = strings.TrimSpace
}
