package props

import (
	"fmt"

	"gocv/vc"
)

func init() {
	register(&Prop{
		ID:        "C17",
		Level:     "other",
		Technique: "contract-based deductive verification of the real interval functions; currently bounded: symbolic execution with all end points symbolic for every list size up to the stated bound",
		MinObls:   100,
		Claim:     "Contracts (well-formedness + pointwise set equation + frame + no panic) on NewMap, MapUnion, MapComplement, MapIntersect, Equal, New are checked against the real code for every input with at most SIZES intervals per argument, all end points arbitrary 64-bit values: a bounded check (labelled bounded, not counted as proved). Loop invariants for the unbounded proof are not written yet.",
		Note:      "bounded stand-in: the number of intervals per argument is enumerated up to a bound (quick 3, thorough 4); end points are arbitrary. Every loop is unrolled by the executor (loop bounds are concrete once the sizes are), all paths are explored, the postconditions are bit-vector validities.",
		Assumptions: []string{
			"bounded: at most 3 (quick) / 4 (thorough) intervals per argument",
			"generic functions are checked for the instantiation model.Addr (uint64), the only one in the program",
			"sort.Slice is modelled by an insertion sort through the real less closure (any comparison-consistent permutation)",
		},
		Build: func(c *Ctx) []*vc.Unit {
			max := int64(3)
			if c.Tier == "thorough" {
				max = 4
			}
			var sizes []int64
			for i := int64(0); i <= max; i++ {
				sizes = append(sizes, i)
			}
			c.Sets["SIZES"] = sizes
			bound := fmt.Sprintf("at most %d intervals per argument (all end points symbolic)", max)
			var units []*vc.Unit
			mk := func(us *UnitSpec) { us.Bounded = bound; us.MaxPaths = 200000 }
			for _, g := range []string{"state/interval.New", "state/interval.NewMap", "state/interval.MapUnion", "state/interval.MapComplement", "state/interval.MapIntersect"} {
				units = append(units, c.genericUnits(g, mk)...)
			}
			units = append(units, c.methodUnits("(state/interval.Map", ").Equal", mk)...)
			return units
		},
	})
}
