package sx

import (
	"fmt"
	"go/types"

	"gocv/smt"
)

// Leaves flattens a type to its scalar leaves (structs and arrays of scalars).
func Leaves(t types.Type) []types.Type {
	switch u := t.Underlying().(type) {
	case *types.Basic:
		if _, _, ok := isInt(t); ok || isBool(t) {
			return []types.Type{t}
		}
	case *types.Struct:
		var out []types.Type
		for i := 0; i < u.NumFields(); i++ {
			l := Leaves(u.Field(i).Type())
			if l == nil {
				return nil
			}
			out = append(out, l...)
		}
		return out
	}
	return nil
}

// SortOf is the SMT sort of a scalar Go type.
func SortOf(t types.Type) *smt.Sort {
	if w, _, ok := isInt(t); ok {
		return smt.BV(w)
	}
	if isBool(t) {
		return smt.Bool
	}
	panic(unsupported("no SMT sort for " + t.String()))
}

func flatten(v Val, out *[]*smt.Term) {
	switch x := v.(type) {
	case *smt.Term:
		*out = append(*out, x)
	case *Struct:
		for _, f := range x.F {
			flatten(f, out)
		}
	default:
		panic(unsupported(fmt.Sprintf("flatten %T into symbolic array", v)))
	}
}

func build(t types.Type, leaves *[]*smt.Term) Val {
	switch u := t.Underlying().(type) {
	case *types.Struct:
		s := &Struct{F: make([]Val, u.NumFields())}
		for i := range s.F {
			s.F[i] = build(u.Field(i).Type(), leaves)
		}
		return s
	}
	r := (*leaves)[0]
	*leaves = (*leaves)[1:]
	return r
}

func (p *Path) symArrGet(a *Arr, i *smt.Term) Val {
	ls := make([]*smt.Term, len(a.Sym))
	for k, arr := range a.Sym {
		ls[k] = smt.Select(arr, i)
	}
	return build(a.ElemT, &ls)
}

func (p *Path) symArrSet(a *Arr, i *smt.Term, v Val) *Arr {
	var ls []*smt.Term
	flatten(v, &ls)
	if len(ls) != len(a.Sym) {
		panic("internal: leaf count mismatch")
	}
	ns := make([]*smt.Term, len(a.Sym))
	for k := range ns {
		ns[k] = smt.Store(a.Sym[k], i, ls[k])
	}
	return &Arr{Sym: ns, ElemT: a.ElemT}
}

func (p *Path) makeSymSlice(et types.Type, ln, cp *smt.Term) Val {
	lt := Leaves(et)
	if lt == nil {
		panic(unsupported("symbolic-length slice of " + et.String()))
	}
	a := &Arr{ElemT: et}
	for _, t := range lt {
		s := SortOf(t)
		var z *smt.Term
		if s.K == smt.KBool {
			z = smt.False
		} else {
			z = smt.BVU(0, s.W)
		}
		a.Sym = append(a.Sym, smt.ConstArray(smt.Array(smt.BV(64), s), z))
	}
	return Slice{Obj: p.Alloc(a), Off: i64(0), Len: ln, Cap: cp}
}

// NewSymSlice allocates a slice whose contents and length are symbolic.
func (p *Path) NewSymSlice(name string, et types.Type) Slice {
	lt := Leaves(et)
	if lt == nil {
		panic(unsupported("symbolic slice of " + et.String()))
	}
	a := &Arr{ElemT: et}
	for k, t := range lt {
		a.Sym = append(a.Sym, smt.Var(fmt.Sprintf("%s.a%d", name, k), smt.Array(smt.BV(64), SortOf(t))))
	}
	ln := smt.Var(name+".len", smt.BV(64))
	cp := smt.Var(name+".cap", smt.BV(64))
	lim := i64(1 << 40)
	p.Assume(smt.BVUle(ln, cp))
	p.Assume(smt.BVUle(cp, lim))
	return Slice{Obj: p.Alloc(a), Off: i64(0), Len: ln, Cap: cp}
}

func (p *Path) symAppend(s Slice, a *Arr, extra []Val, et types.Type) Slice {
	n := int64(len(extra))
	newLen := smt.BVAdd(s.Len, i64(n))
	if p.Decide(smt.BVUle(newLen, s.Cap)) {
		na := a
		for i, v := range extra {
			na = p.symArrSet(na, smt.BVAdd(s.Off, smt.BVAdd(s.Len, i64(int64(i)))), v)
		}
		p.Heap[s.Obj] = na
		return Slice{Obj: s.Obj, Off: s.Off, Len: newLen, Cap: s.Cap}
	}
	// reallocation: a fresh object that starts as a copy of the old
	// contents (same array term, same offset).
	na := a
	for i, v := range extra {
		na = p.symArrSet(na, smt.BVAdd(s.Off, smt.BVAdd(s.Len, i64(int64(i)))), v)
	}
	cp := p.Fresh("cap", smt.BV(64))
	p.Assume(smt.BVUle(newLen, cp))
	p.Assume(smt.BVUle(cp, i64(1<<40)))
	return Slice{Obj: p.Alloc(na), Off: s.Off, Len: newLen, Cap: cp}
}

func (p *Path) symAppendSlice(s Slice, e Slice, et types.Type) Slice {
	// the one case the repository needs: zero padding of symbolic length
	// (append(data, make([]T, n)...)): the appended slice is a fresh
	// all-zero array, so the result is the old contents followed by zeros
	ea, ok := p.Heap[e.Obj].(*Arr)
	if !ok || ea.Elems != nil {
		panic(unsupported("append of a slice with symbolic length"))
	}
	for _, t := range ea.Sym {
		if t.Op != "constarray" {
			panic(unsupported("append of a symbolic-length slice that is not a fresh zero slice"))
		}
	}
	var old []Val
	if s.Obj != 0 {
		old = p.SliceElems(s) // needs a concrete length
	}
	na := &Arr{Sym: append([]*smt.Term{}, ea.Sym...), ElemT: et}
	for i, v := range old {
		na = p.symArrSet(na, i64(int64(i)), v)
	}
	newLen := smt.BVAdd(i64(int64(len(old))), e.Len)
	cp := p.Fresh("cap", smt.BV(64))
	p.Assume(smt.BVUle(newLen, cp))
	return Slice{Obj: p.Alloc(na), Off: i64(0), Len: newLen, Cap: cp}
}

func (p *Path) symCopy(dst Slice, src Slice) Val {
	panic(unsupported("copy with symbolic length"))
}

// ---------- symbolic strings ----------

// NewSymStr returns a string with symbolic content and length < 2^32.
func (p *Path) NewSymStr(name string) Str {
	ln := smt.Var(name+".len", smt.BV(64))
	p.Assume(smt.BVUle(ln, i64(1<<32)))
	return Str{Arr: smt.Var(name+".b", smt.Array(smt.BV(64), smt.BV(8))), Len: ln}
}

func (p *Path) strArr(s Str) (*smt.Term, *smt.Term) {
	if s.Arr != nil {
		return s.Arr, s.Len
	}
	if s.Concrete() {
		arr := smt.ConstArray(smt.Array(smt.BV(64), smt.BV(8)), smt.BVU(0, 8))
		for i := 0; i < len(s.S); i++ {
			arr = smt.Store(arr, i64(int64(i)), smt.BVU(uint64(s.S[i]), 8))
		}
		return arr, i64(int64(len(s.S)))
	}
	panic(unsupported("formatted string as array"))
}

func (p *Path) symStrEq(a, b Str) *smt.Term {
	if b.Concrete() {
		a, b = b, a
	}
	if a.Concrete() {
		c := smt.Eq(b.Len, i64(int64(len(a.S))))
		for i := 0; i < len(a.S); i++ {
			c = smt.And(c, smt.Eq(smt.Select(b.Arr, i64(int64(i))), smt.BVU(uint64(a.S[i]), 8)))
		}
		return c
	}
	i := smt.BoundVar("i!eq", smt.BV(64))
	return smt.And(smt.Eq(a.Len, b.Len),
		smt.Forall([]*smt.Term{i}, smt.Implies(smt.BVUlt(i, a.Len), smt.Eq(smt.Select(a.Arr, i), smt.Select(b.Arr, i)))))
}

func (p *Path) symStrConcat(a, b Str) Str {
	aa, al := p.strArr(a)
	if b.Concrete() {
		for i := 0; i < len(b.S); i++ {
			aa = smt.Store(aa, smt.BVAdd(al, i64(int64(i))), smt.BVU(uint64(b.S[i]), 8))
		}
		return Str{Arr: aa, Len: smt.BVAdd(al, i64(int64(len(b.S))))}
	}
	ba, bl := p.strArr(b)
	r := p.Fresh("cat", smt.Array(smt.BV(64), smt.BV(8)))
	i := smt.BoundVar("i!cat", smt.BV(64))
	p.Assume(smt.Forall([]*smt.Term{i}, smt.Implies(smt.BVUlt(i, al), smt.Eq(smt.Select(r, i), smt.Select(aa, i)))))
	p.Assume(smt.Forall([]*smt.Term{i}, smt.Implies(smt.BVUlt(i, bl), smt.Eq(smt.Select(r, smt.BVAdd(al, i)), smt.Select(ba, i)))))
	return Str{Arr: r, Len: smt.BVAdd(al, bl)}
}

func (p *Path) symStrSlice(s Str, lo, hi *smt.Term) Val {
	if isZero(lo) {
		return Str{Arr: s.Arr, Len: hi}
	}
	r := p.Fresh("sub", smt.Array(smt.BV(64), smt.BV(8)))
	n := smt.BVSub(hi, lo)
	i := smt.BoundVar("i!sub", smt.BV(64))
	p.Assume(smt.Forall([]*smt.Term{i}, smt.Implies(smt.BVUlt(i, n), smt.Eq(smt.Select(r, i), smt.Select(s.Arr, smt.BVAdd(lo, i))))))
	return Str{Arr: r, Len: n}
}
