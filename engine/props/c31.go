package props

import (
	"fmt"
	"go/ast"
	"strings"

	"gocv/smt"
	"gocv/spec"
	"gocv/sx"
	"gocv/vc"

	"golang.org/x/tools/go/ssa"
)

// C31 (navigation commands) and C23 (the listing reflects the code): one
// command line is processed by the real UI.processCommand in the disassembler
// mode, after a concrete prefix of commands; numeric arguments are arbitrary
// digit strings.

// uiState reads the disassembler state of a UI world.
type uiState struct {
	c     *Ctx
	p     *sx.Path
	w     *uiWorld
	view  sx.Ptr // *lines.View
	lines sx.Ptr // *lines.Lines
}

func (c *Ctx) uiStateOf(p *sx.Path, w *uiWorld) *uiState {
	modeT := c.pkgType("mltwist/internal/consoleui/disassemble", "mode")
	viewT := c.pkgType("mltwist/internal/consoleui/internal/lines", "View")
	m := w.mode.(sx.Iface).V.(sx.Ptr)
	ms := p.Load(m, "mode").(*sx.Struct)
	v := ms.F[fieldIdx(modeT, "view")].(sx.Ptr)
	vs := p.Load(v, "view").(*sx.Struct)
	return &uiState{c: c, p: p, w: w, view: v, lines: vs.F[fieldIdx(viewT, "Lines")].(sx.Ptr)}
}

func (u *uiState) cursor() *smt.Term {
	viewT := u.c.pkgType("mltwist/internal/consoleui/internal/lines", "View")
	curT := u.c.pkgType("mltwist/internal/consoleui/internal/cursor", "Cursor")
	vs := u.p.Load(u.view, "view").(*sx.Struct)
	cs := u.p.Load(vs.F[fieldIdx(viewT, "Cursor")].(sx.Ptr), "cursor").(*sx.Struct)
	return cs.F[fieldIdx(curT, "value")].(*smt.Term)
}

type listLine struct {
	value        sx.Str
	block, instr int64
	mark         sx.Str
}

func (u *uiState) listing() ([]listLine, []int64) {
	linesT := u.c.pkgType("mltwist/internal/consoleui/internal/lines", "Lines")
	lineT := u.c.pkgType("mltwist/internal/consoleui/internal/lines", "Line")
	ls := u.p.Load(u.lines, "lines").(*sx.Struct)
	var out []listLine
	sl := ls.F[fieldIdx(linesT, "lines")].(sx.Slice)
	if n, _ := sl.Len.Uint64(); n > 0 {
		for _, e := range u.p.SliceElems(sl) {
			s := e.(*sx.Struct)
			b, _ := sx.ConstInt(s.F[fieldIdx(lineT, "block")])
			i, _ := sx.ConstInt(s.F[fieldIdx(lineT, "instr")])
			out = append(out, listLine{s.F[fieldIdx(lineT, "value")].(sx.Str), b, i, s.F[fieldIdx(lineT, "mark")].(sx.Str)})
		}
	}
	var starts []int64
	bs := ls.F[fieldIdx(linesT, "blockStarts")].(sx.Slice)
	if n, _ := bs.Len.Uint64(); n > 0 {
		for _, e := range u.p.SliceElems(bs) {
			k, _ := sx.ConstInt(e)
			starts = append(starts, k)
		}
	}
	return out, starts
}

// codeBlocks: per block in current order: begin address and the instruction
// objects in current order.
func (u *uiState) codeBlocks() (begins []uint64, seqs [][]sx.Ptr) {
	ct := u.c.pkgType("mltwist/internal/deps", "Code")
	bt := u.c.pkgType("mltwist/internal/deps", "block")
	cs := u.p.Load(u.w.code, "code").(*sx.Struct)
	for _, b := range u.p.SliceElems(cs.F[fieldIdx(ct, "blocks")].(sx.Slice)) {
		bs := u.p.Load(b.(sx.Ptr), "block").(*sx.Struct)
		bg, _ := bs.F[fieldIdx(bt, "begin")].(*smt.Term).Uint64()
		begins = append(begins, bg)
		var seq []sx.Ptr
		for _, ip := range u.p.SliceElems(bs.F[fieldIdx(bt, "seq")].(sx.Slice)) {
			seq = append(seq, ip.(sx.Ptr))
		}
		seqs = append(seqs, seq)
	}
	return
}

type navSession struct {
	Prog   int
	Prefix []string
	Cmd    string // command word
	NArgs  int    // number of digit arguments (each 1-2 arbitrary digits)
	Text   string // literal argument (find)
}

func (s navSession) String() string {
	a := strings.Repeat(" <digits>", s.NArgs)
	if s.Text != "" {
		a += " " + s.Text
	}
	return fmt.Sprintf("%s %q then %q", uiPrograms()[s.Prog].Name, s.Prefix, s.Cmd+a)
}

func navSessions(tier string, moves bool) []navSession {
	var out []navSession
	type ctx struct {
		prog   int
		prefix []string
	}
	ctxs := []ctx{{0, nil}, {1, nil}, {1, []string{"d 5"}}, {1, []string{"g 10"}}, {2, []string{"m 0 6"}}, {2, []string{"m 0 6", "d 2"}}, {3, []string{"m 6 0", "g 3"}}, {1, []string{"m 1 2", "d 1"}}}
	if tier == "thorough" {
		ctxs = append(ctxs, ctx{3, nil}, ctx{3, []string{"m 0 8"}}, ctx{2, []string{"m 1 3", "m 0 6", "g 8"}}, ctx{1, []string{"m 0 7", "m 4 0", "d 9"}})
	}
	for _, cx := range ctxs {
		if moves {
			out = append(out, navSession{cx.prog, cx.prefix, "move", 2, ""}, navSession{cx.prog, cx.prefix, "m", 2, ""})
			continue
		}
		for _, k := range []string{"down", "d", "up", "u", "goto", "g"} {
			out = append(out, navSession{cx.prog, cx.prefix, k, 1, ""})
		}
		out = append(out, navSession{cx.prog, cx.prefix, "entrypoint", 0, ""}, navSession{cx.prog, cx.prefix, "entry", 0, ""},
			navSession{cx.prog, cx.prefix, "find", 0, "x"}, navSession{cx.prog, cx.prefix, "/", 0, "a b"}, navSession{cx.prog, cx.prefix, "f", 0, "addi"})
	}
	return out
}

type navInfo struct {
	args    []*smt.Term // numeric values of the digit arguments
	cursor0 *smt.Term
	before  []listLine
	starts0 []int64
	st      *uiState
}

func (c *Ctx) navUnits(contract string, sessions []navSession, tags []string) []*vc.Unit {
	parser := c.rv64Parser()
	var idx []int64
	for i := range sessions {
		idx = append(idx, int64(i))
	}
	c.Sets["NAVSESSIONS"] = idx
	want := map[string]bool{}
	for _, t := range tags {
		want[t] = true
	}
	return c.ContractUnits(contract, func(us *UnitSpec) {
		s := sessions[us.Enum["s"]]
		us.FuncName = "(*consoleui.UI).processCommand"
		us.InstanceName = fmt.Sprintf("s=%d %s", us.Enum["s"], s)
		us.Bounded = "console sessions of the corpus (numeric arguments: arbitrary strings of one or two digits)"
		us.MaxPaths = 5000
		us.OnlyTags = func(tag string) bool { return want[tag] }
		world := &uiWorld{}
		us.Prepare = func(p *sx.Path) {
			*world = *c.buildUIWorld(p, uiPrograms()[s.Prog], parser)
			var script []sx.Str
			for _, l := range s.Prefix {
				script = append(script, sx.Str{S: l})
			}
			p.Ghost["stdin"] = script
			p.Ghost["stdin.stop"] = true
			func() {
				defer func() {
					if r := recover(); r != nil {
						if _, ok := sx.IsPathEnd(r); ok {
							return
						}
						panic(r)
					}
				}()
				for len(p.Ghost["stdin"].([]sx.Str)) > 0 {
					p.Call(c.Func("(*consoleui.UI).processCommand"), []sx.Val{world.ui}, nil, nil)
				}
			}()
		}
		us.CallHook = c.uiHook
		us.Hooks = func(m *sx.Machine) { m.MaxSteps = 3_000_000 }
		us.Inputs = func(p *sx.Path, ev *spec.Eval, fn *ssa.Function) map[string]sx.Val {
			info := &navInfo{st: c.uiStateOf(p, world)}
			// the line: command word, then digit arguments
			var bs []*smt.Term
			for i := 0; i < len(s.Cmd); i++ {
				bs = append(bs, smt.BVU(uint64(s.Cmd[i]), 8))
			}
			for a := 0; a < s.NArgs; a++ {
				bs = append(bs, smt.BVU(' ', 8))
				d1 := smt.Var(fmt.Sprintf("arg%d.d0", a), smt.BV(8))
				d2 := smt.Var(fmt.Sprintf("arg%d.d1", a), smt.BV(8))
				isDigit := func(d *smt.Term) *smt.Term {
					return smt.And(smt.BVUle(smt.BVU('0', 8), d), smt.BVUle(d, smt.BVU('9', 8)))
				}
				p.Assume(isDigit(d1))
				two := smt.Var(fmt.Sprintf("arg%d.two", a), smt.Bool)
				v1 := smt.ZeroExt(smt.BVSub(d1, smt.BVU('0', 8)), 56)
				if !(s.NArgs == 2 && c.Tier != "thorough") && p.Decide(two) {
					p.Assume(isDigit(d2))
					bs = append(bs, d1, d2)
					v2 := smt.ZeroExt(smt.BVSub(d2, smt.BVU('0', 8)), 56)
					info.args = append(info.args, smt.BVAdd(smt.BVMul(v1, smt.BVU(10, 64)), v2))
				} else {
					bs = append(bs, d1)
					info.args = append(info.args, v1)
				}
			}
			if s.Text != "" {
				bs = append(bs, smt.BVU(' ', 8))
				for i := 0; i < len(s.Text); i++ {
					bs = append(bs, smt.BVU(uint64(s.Text[i]), 8))
				}
			}
			// extra ENTER lines for the "press ENTER" prompts of error messages
			p.Ghost["stdin"] = []sx.Str{sx.MkBytesStr(bs), {}, {}}
			info.cursor0 = info.st.cursor()
			info.before, info.starts0 = info.st.listing()
			c.installNavBuiltins(ev, world, info, s)
			env := c.leafEnv(p)
			env.BigLimit = 0
			p.Ghost["env"] = env
			return map[string]sx.Val{"c": world.ui}
		}
	})
}

func (c *Ctx) installNavBuiltins(ev *spec.Eval, world *uiWorld, info *navInfo, s navSession) {
	B := ev.Builtins
	p := ev.P
	errorPrinted := func() bool {
		for _, f := range p.OutFmt {
			if strings.HasPrefix(f, "error: ") {
				return true
			}
		}
		return false
	}
	fail := func(format string, args ...interface{}) spec.TV {
		p.Ghost["detail"] = fmt.Sprintf(format, args...)
		return spec.TV{V: smt.False}
	}
	// nav_lands(): the cursor is where the property puts it, or unchanged
	// together with an error message
	B["nav_lands"] = func(ev *spec.Eval, a []ast.Expr) spec.TV {
		st := info.st
		lines, _ := st.listing()
		n := int64(len(lines))
		cur := st.cursor()
		c0 := info.cursor0
		same := smt.Eq(cur, c0)
		bad := errorPrinted()
		k := strings.ToLower(s.Cmd)
		switch k {
		case "down", "d", "up", "u", "goto", "g":
			var target *smt.Term
			N := info.args[0]
			switch k[0] {
			case 'd':
				target = smt.BVAdd(c0, N)
			case 'u':
				target = smt.BVSub(c0, N)
			default:
				target = N
			}
			valid := smt.And(smt.BVSle(smt.BVU(0, 64), target), smt.BVSlt(target, smt.BVI(n, 64)))
			return spec.TV{V: smt.And(
				smt.Implies(valid, smt.And(smt.Eq(cur, target), smt.BoolC(!bad))),
				smt.Implies(smt.Not(valid), smt.And(same, smt.BoolC(bad))))}
		case "entrypoint", "entry":
			// the line of the instruction at the entry point, from the code model
			begins, seqs := st.codeBlocks()
			it := c.pkgType("mltwist/internal/deps", "instruction")
			line := int64(0)
			want := int64(-1)
			for b := range begins {
				if b > 0 {
					line++
				}
				line++ // header
				for _, ip := range seqs[b] {
					a, _ := p.Load(ip, "ins").(*sx.Struct).F[fieldIdx(it, "currAddr")].(*smt.Term).Uint64()
					if a == 0x1000 {
						want = line
					}
					line++
				}
			}
			if want < 0 {
				return spec.TV{V: smt.And(same, smt.BoolC(bad))}
			}
			return spec.TV{V: smt.And(smt.Eq(cur, smt.BVI(want, 64)), smt.BoolC(!bad))}
		case "find", "f", "/":
			c0k, ok := sx.ConstInt(c0)
			if !ok {
				return fail("symbolic cursor")
			}
			if _, failed := p.Ghost["regexp.failed"]; failed {
				return spec.TV{V: smt.And(same, smt.BoolC(bad))}
			}
			log, _ := p.Ghost["regexp.log"].([]RegexpMatch)
			match := func(text sx.Str) *smt.Term {
				for _, m := range log {
					if sx.SameVal(m.Text, text) {
						return m.Res
					}
				}
				// never asked: an arbitrary answer
				un, _ := p.Ghost["regexp.unasked"].(int)
				p.Ghost["regexp.unasked"] = un + 1
				return smt.Var(fmt.Sprintf("regexp.unasked.%d", un), smt.Bool)
			}
			// first matching line after the cursor, cyclically, excluding it
			cond := smt.True
			none := smt.True
			for d := int64(1); d < n; d++ {
				kk := (c0k + d) % n
				m := match(lines[kk].value)
				cond = smt.And(cond, smt.Implies(smt.And(none, m), smt.And(smt.Eq(cur, smt.BVI(kk, 64)), smt.BoolC(!bad))))
				none = smt.And(none, smt.Not(m))
			}
			cond = smt.And(cond, smt.Implies(none, same))
			return spec.TV{V: cond}
		}
		return fail("unknown navigation command %s", s.Cmd)
	}
	// listing_fresh(): the listing equals a fresh rendering of the current code
	B["listing_fresh"] = func(ev *spec.Eval, a []ast.Expr) spec.TV {
		st := info.st
		lines, starts := st.listing()
		begins, seqs := st.codeBlocks()
		it := c.pkgType("mltwist/internal/deps", "instruction")
		// the real renderer on the current code, for the instruction texts
		saved := p.NoSafety
		p.NoSafety = true
		fresh := p.Call(c.Func("consoleui/internal/lines.newLines"), []sx.Val{world.code}, nil, nil).(sx.Ptr)
		p.NoSafety = saved
		fst := &uiState{c: c, p: p, w: world, lines: fresh}
		flines, _ := fst.listing()
		k := 0
		next := func() (listLine, bool) {
			if k >= len(lines) {
				return listLine{}, false
			}
			k++
			return lines[k-1], true
		}
		for b := range begins {
			if b > 0 {
				l, ok := next()
				if !ok || l.block != -1 || l.instr != -1 || !(l.value.Concrete() && l.value.S == "") {
					return fail("no single blank line before block %d (line %d)", b+1, k-1)
				}
			}
			if b >= len(starts) || starts[b] != int64(k) {
				return fail("the start line recorded for block %d is not line %d", b+1, k)
			}
			l, ok := next()
			wantHdr := fmt.Sprintf("Block %d: 0x%x", b+1, begins[b])
			if !ok || l.block != int64(b) || l.instr != -1 || !(l.value.Concrete() && l.value.S == wantHdr) {
				return fail("line %d is not the header %q of the block at position %d", k-1, wantHdr, b+1)
			}
			for i, ip := range seqs[b] {
				l, ok := next()
				if !ok || l.block != int64(b) || l.instr != int64(i) {
					return fail("line %d is not instruction %d of block %d", k-1, i, b+1)
				}
				idx, _ := sx.ConstInt(p.Load(ip, "ins").(*sx.Struct).F[fieldIdx(it, "blockIdx")])
				if idx != int64(i) {
					return fail("instruction order of block %d", b+1)
				}
				if k-1 >= len(flines) || !sx.SameVal(flines[k-1].value, l.value) {
					return fail("line %d does not show the text and bytes of instruction %d of block %d", k-1, i, b+1)
				}
			}
		}
		l, ok := next()
		if !ok || l.block != -1 || !(l.value.Concrete() && l.value.S == "") || k != len(lines) {
			return fail("the listing does not end with one blank line after the last block")
		}
		return spec.TV{V: smt.True}
	}
	B["listing_unchanged"] = func(ev *spec.Eval, a []ast.Expr) spec.TV {
		lines, starts := info.st.listing()
		if len(lines) != len(info.before) || len(starts) != len(info.starts0) {
			return fail("the listing changed its length")
		}
		for i := range lines {
			x, y := lines[i], info.before[i]
			if x.block != y.block || x.instr != y.instr || !sx.SameVal(x.value, y.value) {
				return fail("line %d changed", i)
			}
		}
		for i := range starts {
			if starts[i] != info.starts0[i] {
				return fail("block start %d changed", i)
			}
		}
		return spec.TV{V: smt.True}
	}
	B["command_failed"] = func(ev *spec.Eval, a []ast.Expr) spec.TV {
		return spec.TV{V: smt.BoolC(errorPrinted())}
	}
}

func init() {
	register(&Prop{
		ID:        "C31",
		Level:     "other",
		Technique: "contract-based deductive verification of the real navigation commands (through UI.processCommand, the command table, the argument parsers, Cursor.Set, Lines.Line) against the landing line the property prescribes; currently bounded in the session corpus",
		MinObls:   60,
		Claim:     "For every session of the corpus (four programs; cursor at the start, in the middle, on the last line; after instruction and block moves) the commands down, up, goto (with an arbitrary one- or two-digit number), entrypoint and find are processed by the real UI: the cursor ends on the line N below / above, on line N, on the line of the instruction at the entry point, on the first line after the cursor (cyclically, the cursor line excluded) whose text the pattern matches, or the command prints an error and the cursor is unchanged - exactly according to whether the target exists.",
		Note:      "bounded stand-in: sessions of the corpus; numeric arguments are symbolic digit strings (0-99, beyond every listing of the corpus). regexp.CompilePOSIX / MatchString are an arbitrary predicate of the line text (every combination of match results is explored).",
		Assumptions: []string{
			"bounded: console sessions of the corpus",
			"regexp: compilation fails or succeeds arbitrarily; MatchString is an uninterpreted predicate of the text",
			"strconv.Atoi, strings.Split behave as documented (assumed contracts)",
		},
		Build: func(c *Ctx) []*vc.Unit {
			return c.navUnits("(*consoleui.UI).processCommand", navSessions(c.Tier, false), []string{"lands-or-fails"})
		},
	})
	register(&Prop{
		ID:        "C23",
		Level:     "other",
		Technique: "contract-based deductive verification of the real listing maintenance (Lines.Move, Reload, reloadAll, blockToLines, SetMark, the move command) against a rendering computed from the code model; currently bounded in the session corpus",
		MinObls:   60,
		Claim:     "For every session of the corpus - a history of accepted and rejected instruction and block moves followed by one more move command with two arbitrary one- or two-digit line numbers - the listing afterwards is, apart from marks, a fresh rendering of the current code: per block in current order a header with position number and start address, its instructions in current order with the text and bytes the renderer gives them, single blank lines between blocks and at the end, and the recorded block start lines agree; when the move is rejected (an error is printed) the listing is unchanged.",
		Note:      "bounded stand-in: move histories of the corpus (up to three moves before the symbolic one); the expected structure (headers, block and instruction indices, blank lines, block starts) is computed from the code model, the instruction texts are compared with the real renderer applied to the current code.",
		Assumptions: []string{
			"bounded: console sessions of the corpus",
			"strconv.Atoi, strings.Split behave as documented (assumed contracts)",
		},
		Build: func(c *Ctx) []*vc.Unit {
			return c.navUnits("(*consoleui.UI).processCommand", navSessions(c.Tier, true), []string{"listing-is-fresh-rendering", "rejected-move-keeps-listing"})
		},
	})
}
