package sx

import (
	"go/token"

	"gocv/smt"

	"golang.org/x/tools/go/ssa"
)

// If-conversion of side-effect-free diamonds and triangles (short-circuit
// boolean operators, "if c { x += 1 }"): instead of forking, both arms are
// evaluated and the phis of the join block receive ite(cond, v1, v0). Only
// blocks made of pure, total instructions are treated; anything else forks.

type mergeRes struct {
	join *ssa.BasicBlock
	vals map[*ssa.Phi]Val
}

func pureInstr(in ssa.Instruction) bool {
	switch x := in.(type) {
	case *ssa.BinOp:
		switch x.Op {
		case token.QUO, token.REM, token.SHL, token.SHR:
			return false
		}
		if _, _, ok := isInt(x.X.Type()); ok {
			return true
		}
		return isBool(x.X.Type())
	case *ssa.UnOp:
		return x.Op == token.NOT || x.Op == token.SUB || x.Op == token.XOR
	case *ssa.Convert:
		_, _, a := isInt(x.X.Type())
		_, _, b := isInt(x.Type())
		return a && b
	case *ssa.ChangeType, *ssa.DebugRef:
		return true
	}
	return false
}

// reach evaluates, without forking, what happens when control goes from pred
// to s, until a join block is reached.
func (p *Path) reach(fr *Frame, s, pred *ssa.BasicBlock, depth int) (mergeRes, bool) {
	if depth > 6 {
		return mergeRes{}, false
	}
	if len(s.Preds) > 1 {
		// s is the join: collect the phi operands of the edge pred -> s
		idx := -1
		for i, pb := range s.Preds {
			if pb == pred {
				idx = i
			}
		}
		if idx < 0 || p.M.isLoopHead(s) {
			return mergeRes{}, false
		}
		vals := map[*ssa.Phi]Val{}
		for _, in := range s.Instrs {
			ph, ok := in.(*ssa.Phi)
			if !ok {
				break
			}
			vals[ph] = p.get(fr, ph.Edges[idx])
		}
		return mergeRes{join: s, vals: vals}, true
	}
	return p.through(fr, s, 0, depth)
}

// through speculates the instructions of s from index from on (the phis
// before it have been assigned) up to the next join.
func (p *Path) through(fr *Frame, s *ssa.BasicBlock, from int, depth int) (mergeRes, bool) {
	if depth > 8 {
		return mergeRes{}, false
	}
	n := len(s.Instrs)
	for _, in := range s.Instrs[from : n-1] {
		if !pureInstr(in) {
			return mergeRes{}, false
		}
	}
	for _, in := range s.Instrs[from : n-1] {
		if _, isDbg := in.(*ssa.DebugRef); isDbg {
			continue
		}
		p.exec(fr, in)
	}
	switch t := s.Instrs[n-1].(type) {
	case *ssa.Jump:
		return p.reach(fr, s.Succs[0], s, depth+1)
	case *ssa.If:
		c, ok := p.get(fr, t.Cond).(*smt.Term)
		if !ok {
			return mergeRes{}, false
		}
		if c.IsTrue() {
			return p.reach(fr, s.Succs[0], s, depth+1)
		}
		if c.IsFalse() {
			return p.reach(fr, s.Succs[1], s, depth+1)
		}
		r, ok := p.mergeIf(fr, s, c, depth+1)
		if !ok {
			return mergeRes{}, false
		}
		// the inner diamond is closed at r.join: enter it with the merged
		// phi values and keep going towards the outer join
		nphi := 0
		for _, in := range r.join.Instrs {
			ph, isPhi := in.(*ssa.Phi)
			if !isPhi {
				break
			}
			nphi++
			fr.Locals[ph] = r.vals[ph]
		}
		return p.through(fr, r.join, nphi, depth+1)
	}
	return mergeRes{}, false
}

// mergeIf merges the two successors of the If terminating b.
func (p *Path) mergeIf(fr *Frame, b *ssa.BasicBlock, c *smt.Term, depth int) (mergeRes, bool) {
	r1, ok := p.reach(fr, b.Succs[0], b, depth)
	if !ok {
		return mergeRes{}, false
	}
	r0, ok := p.reach(fr, b.Succs[1], b, depth)
	if !ok || r0.join != r1.join {
		return mergeRes{}, false
	}
	vals := map[*ssa.Phi]Val{}
	for ph, v1 := range r1.vals {
		v0 := r0.vals[ph]
		t1, ok1 := v1.(*smt.Term)
		t0, ok0 := v0.(*smt.Term)
		if !ok1 || !ok0 {
			eq := false
			func() {
				defer func() { recover() }()
				eq = p.EqVal(v1, v0).IsTrue()
			}()
			if !eq {
				return mergeRes{}, false
			}
			vals[ph] = v1
			continue
		}
		vals[ph] = smt.Ite(c, t1, t0)
	}
	return mergeRes{join: r1.join, vals: vals}, true
}
