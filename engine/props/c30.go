package props

import (
	"fmt"
	"go/ast"

	"gocv/smt"
	"gocv/spec"
	"gocv/sx"
	"gocv/vc"

	"golang.org/x/tools/go/ssa"
)

// C30: numeric user input. The specification is the grammar of the property,
// written as a disjunction of cases over the bytes of the input string
// (no forking): a prefix selects the base, at least one digit follows, every
// byte is a digit of the base; the value is computed in a vector wide enough
// not to overflow.

type numCase struct {
	Ok  *smt.Term
	Val *smt.Term
}

func specDigit(b *smt.Term, base int, w int) (*smt.Term, *smt.Term) {
	rng := func(lo, hi byte) *smt.Term {
		return smt.And(smt.BVUle(smt.BVU(uint64(lo), 8), b), smt.BVUle(b, smt.BVU(uint64(hi), 8)))
	}
	z := func(t *smt.Term) *smt.Term { return smt.ZeroExt(t, w-8) }
	switch {
	case base <= 10:
		return z(smt.BVSub(b, smt.BVU('0', 8))), rng('0', byte('0'+base-1))
	default:
		d, l, u := rng('0', '9'), rng('a', 'f'), rng('A', 'F')
		v := smt.Ite(d, smt.BVSub(b, smt.BVU('0', 8)), smt.Ite(l, smt.BVSub(b, smt.BVU('a'-10, 8)), smt.BVSub(b, smt.BVU('A'-10, 8))))
		return z(v), smt.Or(d, l, u)
	}
}

// specNumber: value and validity of digits bs in base (at least one digit).
func specNumber(bs []*smt.Term, base int, w int) numCase {
	if len(bs) == 0 {
		return numCase{smt.False, smt.BVU(0, w)}
	}
	ok := smt.True
	v := smt.BVU(0, w)
	for _, b := range bs {
		d, dok := specDigit(b, base, w)
		ok = smt.And(ok, dok)
		v = smt.BVAdd(smt.BVMul(v, smt.BVU(uint64(base), w)), d)
	}
	return numCase{ok, v}
}

func is(b *smt.Term, chars ...byte) *smt.Term {
	var cs []*smt.Term
	for _, c := range chars {
		cs = append(cs, smt.Eq(b, smt.BVU(uint64(c), 8)))
	}
	return smt.Or(cs...)
}

// specUnsigned: the unsigned-number grammar shared by both parsers.
// octalO: the "0o" prefix is accepted (emulator prompt), not for addresses.
func specUnsigned(bs []*smt.Term, w int, octalO bool) numCase {
	var cases []numCase
	n := len(bs)
	if n >= 3 {
		c := specNumber(bs[2:], 16, w)
		cases = append(cases, numCase{smt.And(is(bs[0], '0'), is(bs[1], 'x', 'X'), c.Ok), c.Val})
		c = specNumber(bs[2:], 2, w)
		cases = append(cases, numCase{smt.And(is(bs[0], '0'), is(bs[1], 'b', 'B'), c.Ok), c.Val})
		if octalO {
			c = specNumber(bs[2:], 8, w)
			cases = append(cases, numCase{smt.And(is(bs[0], '0'), is(bs[1], 'o', 'O'), c.Ok), c.Val})
		}
	}
	if n >= 2 {
		c := specNumber(bs[1:], 8, w)
		cases = append(cases, numCase{smt.And(is(bs[0], '0'), c.Ok), c.Val})
	}
	if n >= 1 {
		c := specNumber(bs, 10, w)
		first := smt.Not(is(bs[0], '0'))
		if n == 1 {
			first = smt.True // a lone 0 is decimal zero
		}
		cases = append(cases, numCase{smt.And(first, c.Ok), c.Val})
	}
	ok := smt.False
	val := smt.BVU(0, w)
	for i := len(cases) - 1; i >= 0; i-- {
		ok = smt.Or(ok, cases[i].Ok)
		val = smt.Ite(cases[i].Ok, cases[i].Val, val)
	}
	return numCase{ok, val}
}

func (c *Ctx) installNumBuiltins(ev *spec.Eval) {
	B := ev.Builtins
	p := ev.P
	bytesOf := func(v spec.TV) []*smt.Term {
		s, ok := v.V.(sx.Str)
		if !ok {
			panic(spec.EvalError{Msg: "string expected"})
		}
		bs, ok := s.ByteTerms()
		if !ok {
			panic(spec.EvalError{Msg: "string of concrete length expected"})
		}
		return bs
	}
	addr := func(v spec.TV) numCase {
		bs := bytesOf(v)
		w := 4*len(bs) + 72
		nc := specUnsigned(bs, w, false)
		fits := smt.Eq(smt.Extract(nc.Val, w-1, 64), smt.BVU(0, w-64))
		return numCase{smt.And(nc.Ok, fits), smt.Extract(nc.Val, 63, 0)}
	}
	B["addr_wellformed"] = func(ev *spec.Eval, a []ast.Expr) spec.TV { return spec.TV{V: addr(ev.Eval(a[0])).Ok} }
	B["addr_value"] = func(ev *spec.Eval, a []ast.Expr) spec.TV { return raw(addr(ev.Eval(a[0])).Val) }
	// ifaceval(x): the integer held by an interface value
	B["ifaceval"] = func(ev *spec.Eval, a []ast.Expr) spec.TV {
		v := ev.Eval(a[0])
		i, ok := v.V.(sx.Iface)
		if !ok || i.T == nil {
			return raw(smt.BVU(0, 64))
		}
		t, ok := i.V.(*smt.Term)
		if !ok {
			panic(spec.EvalError{Msg: "interface does not hold an integer"})
		}
		return raw(t)
	}
	B["holds_addr"] = func(ev *spec.Eval, a []ast.Expr) spec.TV {
		v := ev.Eval(a[0])
		i, ok := v.V.(sx.Iface)
		return spec.TV{V: smt.BoolC(ok && i.T != nil && i.T.String() == "mltwist/pkg/model.Addr")}
	}
	// the line typed at the prompt
	B["typed_line"] = func(ev *spec.Eval, a []ast.Expr) spec.TV {
		n := constArg(ev, a[0], "line length")
		bs := make([]*smt.Term, n)
		for i := range bs {
			bs[i] = smt.Var(fmt.Sprintf("line.%d", i), smt.BV(8))
		}
		var s sx.Str
		if n > 0 {
			s = sx.Str{Bs: bs}
		}
		p.Ghost["stdin"] = []sx.Str{s}
		p.Ghost["line"] = s
		return spec.TV{V: smt.True}
	}
	value := func(wbytes int) numCase {
		s := p.Ghost["line"].(sx.Str)
		bs, _ := s.ByteTerms()
		under := smt.False
		for _, b := range bs {
			under = smt.Or(under, is(b, '_'))
		}
		if len(bs) == 0 {
			return numCase{smt.False, smt.BVU(0, 8*wbytes)}
		}
		w := 4*len(bs) + 8*wbytes + 8
		plain := specUnsigned(bs, w, true)
		signed := specUnsigned(bs[1:], w, true)
		neg := is(bs[0], '-')
		sg := is(bs[0], '+', '-')
		ok := smt.And(smt.Not(under), smt.Or(plain.Ok, smt.And(sg, signed.Ok)))
		v := smt.Ite(plain.Ok, plain.Val, smt.Ite(neg, smt.BVNeg(signed.Val), signed.Val))
		return numCase{ok, smt.Extract(v, 8*wbytes-1, 0)}
	}
	B["typed_wellformed"] = func(ev *spec.Eval, a []ast.Expr) spec.TV {
		return spec.TV{V: value(int(constArg(ev, a[0], "width"))).Ok}
	}
	B["typed_value"] = func(ev *spec.Eval, a []ast.Expr) spec.TV {
		return raw(value(int(constArg(ev, a[0], "width"))).Val)
	}
}

func init() {
	register(&Prop{
		ID:        "C30",
		Level:     "other",
		Technique: "contract-based deductive verification of the real input parsers against the number grammar of the property; currently bounded: symbolic execution for every input length up to a bound with all characters symbolic, strconv and math/big behind assumed contracts",
		MinObls:   40,
		Claim:     "parseAddr (error exactly for strings outside the grammar decimal | 0x hex | 0b binary | 0-prefixed octal or above 2^64-1; otherwise the denoted address) and readValue (error exactly for empty input, underscores and strings outside [+-] decimal | 0x | 0b | 0o | 0-octal; otherwise the typed integer modulo 2^(8w) as a w-byte constant) are checked on the real code for every input string up to LEN characters, all characters arbitrary, and widths 1, 2, 4, 8: bounded in the input length.",
		Note:      "bounded stand-in: input lengths 0..5 (quick) / 0..7 (thorough; one 19-character hexadecimal family for the 64-bit range check). The specification is a disjunction of grammar cases over the input bytes, written independently of the code's prefix cascade. strconv.ParseUint and (*big.Int).SetString are modelled by their documented grammar (assumed contracts), constant folding of the negation is executed as it is.",
		Assumptions: []string{
			"bounded: input length up to 5 (quick) / 7 (thorough)",
			"strconv.ParseUint(s, base, 64), (*big.Int).SetString(s, 0), Sign, Bytes behave as documented (assumed contracts, sx/numparse.go)",
			"linereader.ReadLine returns the typed line without its newline (assumed contract of bufio.Scanner)",
			"calls of expreval.* are replaced by their contracts (property C10)",
		},
		Build: func(c *Ctx) []*vc.Unit {
			max := int64(5)
			if c.Tier == "thorough" {
				max = 7
			}
			var lens []int64
			for i := int64(0); i <= max; i++ {
				lens = append(lens, i)
			}
			c.Sets["ADDRLENS"] = lens
			c.Sets["VALLENS"] = lens
			if c.Tier == "thorough" {
				c.Sets["ADDRLENS"] = append(lens, 19)
			}
			c.Sets["VALWIDTHS"] = []int64{1, 2, 4, 8}
			mk := func(us *UnitSpec) {
				us.Bounded = fmt.Sprintf("input length %d (all characters symbolic)", us.Enum["n"])
				us.MaxPaths = 400000
				us.CallHook = c.valueHook
				us.Inputs = func(p *sx.Path, ev *spec.Eval, fn *ssa.Function) map[string]sx.Val {
					c.installStrBuiltins(ev)
					c.installNumBuiltins(ev)
					env := c.leafEnv(p)
					env.BigLimit = 0
					p.Ghost["env"] = env
					return nil
				}
			}
			u := c.ContractUnits("consoleui/internal/memview.parseAddr", func(us *UnitSpec) {
				mk(us)
				us.Replay = c.parseAddrReplay(int(us.Enum["n"]))
			})
			return append(u, c.ContractUnits("consoleui/emulate.readValue", mk)...)
		},
	})
}
