package props

import (
	"fmt"
	"go/ast"
	"strings"

	"gocv/rv"
	"gocv/smt"
	"gocv/spec"
	"gocv/sx"
	"gocv/vc"

	"golang.org/x/tools/go/ssa"
)

func (c *Ctx) installTextBuiltins(ev *spec.Eval, e rvEntry) {
	B := ev.Builtins
	p := ev.P
	skeleton := func(s sx.Str) string {
		if s.Concrete() {
			return strings.ReplaceAll(s.S, "%", "%%")
		}
		if s.Fmt == "" {
			panic(spec.EvalError{Msg: "instruction text is an unconstrained string (unsupported format verb?)"})
		}
		return s.Fmt
	}
	// hasprefix(s, a, b): the text starts with the concrete strings a+b
	B["hasprefix"] = func(ev *spec.Eval, a []ast.Expr) spec.TV {
		s := ev.Eval(a[0]).V.(sx.Str)
		pre := ""
		for _, x := range a[1:] {
			pre += strArg(ev, x)
		}
		return spec.TV{V: smt.BoolC(strings.HasPrefix(skeleton(s), strings.ReplaceAll(pre, "%", "%%")))}
	}
	// contains(s, skeleton): the text's format skeleton contains the given one
	B["contains"] = func(ev *spec.Eval, a []ast.Expr) spec.TV {
		s := ev.Eval(a[0]).V.(sx.Str)
		return spec.TV{V: smt.BoolC(strings.Contains(skeleton(s), strArg(ev, a[1])))}
	}
	B["rv_text_faithful"] = func(ev *spec.Eval, a []ast.Expr) spec.TV {
		i1 := ev.Eval(a[0])
		text1 := ev.Eval(a[1]).V.(sx.Str)
		st := c.rvStateOf(p)
		word1 := ev.Term(ev.Field(i1, "value"))
		addr := ev.Term(ev.Field(i1, "addr"))
		word2 := smt.Var("word2", smt.BV(32))
		match2 := smt.Eq(smt.BVAnd(word2, smt.BVU(uint64(e.Mask), 32)), smt.BVU(uint64(e.Match), 32))
		i2 := c.rvInstructionValue(e, addr, word2)
		fn := c.Func("(riscv.instruction).String")
		saved := p.NoSafety
		p.NoSafety = true
		text2 := p.Call(fn, []sx.Val{i2}, nil, nil).(sx.Str)
		p.NoSafety = saved
		same := p.StrEq(text1, text2)
		enc, ok := rv.ByName(st.XLen)[e.Name]
		if !ok {
			panic(spec.EvalError{Msg: fmt.Sprintf("the RISC-V reference (RV%d) has no instruction named %q", st.XLen, e.Name)})
		}
		pc := smt.Resize(addr, st.XLen)
		m1 := rv.NewM(st.XLen, word1, pc, st.X, st.CSR, st.MEM)
		enc.Sem(m1)
		m2 := rv.NewM(st.XLen, word2, pc, st.X, st.CSR, st.MEM)
		enc.Sem(m2)
		kx := p.Fresh("sk", smt.BV(5))
		kc := p.Fresh("sk", smt.BV(12))
		km := p.Fresh("sk", smt.BV(64))
		beh := smt.And(
			smt.Eq(smt.Select(m1.OX, kx), smt.Select(m2.OX, kx)),
			smt.Eq(smt.Select(m1.OCSR, kc), smt.Select(m2.OCSR, kc)),
			smt.Eq(smt.Select(m1.OMEM, km), smt.Select(m2.OMEM, km)),
			smt.Eq(m1.OPC, m2.OPC))
		return spec.TV{V: smt.Implies(smt.And(match2, same), beh)}
	}
}

func init() {
	register(&Prop{
		ID:        "C25",
		Level:     "proof",
		Technique: "contract-based deductive verification: two-word (self-composed) postcondition of instruction.String against the RISC-V reference, QF_ABV validity per instruction",
		MinObls:   300,
		Note:      "For every table entry, String is executed symbolically on two arbitrary words of that entry at one address; fmt.Sprintf/strings.Join are modelled structurally (literal skeleton plus integer arguments). The postcondition: equal texts imply equal prescribed behaviour (registers, CSRs, memory, pc) for all machine states; the text starts with the mnemonic and a blank; loads and stores show offset(base).",
		Assumptions: []string{
			"fmt \"%d\" / \"x%d\" are injective: two formatted texts are equal iff their literal skeletons and all integer arguments are equal",
			"the behaviour of a word is the RISC-V reference's (property C01 shows the lifted effects have exactly that behaviour)",
			"different mnemonics give different texts (names are checked by C02)",
		},
		Build: func(c *Ctx) []*vc.Unit {
			name := "(riscv.instruction).String"
			ct := c.Contract(name)
			var units []*vc.Unit
			for _, e := range c.rvEntries() {
				e := e
				us := &UnitSpec{Ctx: c, Name: name, Contract: ct, Enum: map[string]int64{}}
				us.InstanceName = fmt.Sprintf("rv%d/%s/%s", e.XLen, e.Table, e.Name)
				us.Inputs = func(p *sx.Path, ev *spec.Eval, fn *ssa.Function) map[string]sx.Val {
					c.installRvBuiltins(ev)
					c.installTextBuiltins(ev, e)
					st := newRvState(e.XLen, "")
					addr := smt.Var("addr", smt.BV(64))
					word := smt.Var("word", smt.BV(32))
					st.Word = word
					st.PC = smt.Resize(addr, e.XLen)
					p.Ghost["rv"] = st
					return map[string]sx.Val{"i": c.rvInstructionValue(e, addr, word)}
				}
				units = append(units, us.Unit())
			}
			return units
		},
	})
}
