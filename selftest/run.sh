#!/bin/bash
# Self-test of the verification machinery.
#  1. Canaries: every defect repaired by a "fix:" commit (known_findings.json,
#     status fixed) is re-introduced by reverting that commit in a scratch
#     worktree; the check of its property must report a VIOLATION naming the
#     recorded obligation.
#  2. Mutants: selftest/mutants/<name>.patch with a header line
#       # expect: <ID> <obligation substring>      (must fail)   or
#       # expect: <ID> PASS                        (harmless edit, must pass)
# Usage: selftest/run.sh [filter]
set -u
cd /verif
export GOFLAGS=-mod=mod GOPROXY=off GOSUMDB=off GOTOOLCHAIN=local
filter="${1:-}"
fail=0; n=0
scratch=$(mktemp -d /tmp/gocv-selftest-XXXXXX)
trap 'cd /; git -C /repo worktree remove --force "$scratch/wt" 2>/dev/null; rm -rf "$scratch"' EXIT
git -C /repo worktree add --detach "$scratch/wt" HEAD >/dev/null 2>&1 || { echo "cannot create worktree"; exit 2; }
run_case() { # name id expect patchcmd
  local name="$1" id="$2" expect="$3"
  n=$((n+1))
  out=$(bin/gocv -repo "$scratch/wt" -verif "$scratch/out" check "$id" quick 2>&1)
  rc=$?
  if [ "$expect" = "PASS" ]; then
    if [ $rc -eq 0 ]; then echo "ok    $name: $id passes"; else echo "FAIL  $name: $id raised an alarm on a harmless edit"; echo "$out" | grep -E "^VIOLATION|^FAILED" | head -3; fail=$((fail+1)); fi
  else
    # ordinals of obligation sites shift when code is inserted: compare modulo digits
    pat=$(printf '%s' "$expect" | sed -E 's/[][().*$^+?{}|\\]/\\&/g; s/([a-z])[0-9]+\//\1[0-9]+\//g')
    if [ $rc -ne 0 ] && echo "$out" | grep -E "^VIOLATION" | grep -qE -- "$pat"; then echo "ok    $name: $id reports $expect"
    else echo "FAIL  $name: $id did not report $expect (exit $rc)"; echo "$out" | grep -E "^VIOLATION|^C[0-9]+ " | head -3; fail=$((fail+1)); fi
  fi
  git -C "$scratch/wt" checkout -q -- . ; git -C "$scratch/wt" clean -fdq
}
mkdir -p "$scratch/out"; cp known_findings.json "$scratch/out/" 2>/dev/null
# the scratch copy must not suppress anything as a known finding
python3 - "$scratch/out/known_findings.json" <<'PY'
import json,sys
p=sys.argv[1]
try: fs=json.load(open(p))
except Exception: fs=[]
json.dump([f for f in fs if f.get("status")!="known"],open(p,"w"))
PY
# 1. canaries from fixed findings
python3 - <<'PY' > "$scratch/canaries.txt"
import json
for f in json.load(open("/verif/known_findings.json")):
    if f.get("status")=="fixed" and f.get("commit"):
        ob=f["obligation"].split(" @")[0]
        print(f["property"], f["commit"], ob, sep="\t")
PY
while IFS=$'\t' read -r id commit ob; do
  case "$id $commit $ob" in *"$filter"*) ;; *) continue;; esac
  if git -C /repo show "$commit" -- . ':!*contracts_verif.go' | git -C "$scratch/wt" apply -R --whitespace=nowarn 2>/dev/null; then
    (cd "$scratch/wt" && go build ./... 2>/dev/null) || { echo "SKIP  revert of $commit does not build"; git -C "$scratch/wt" checkout -q -- .; continue; }
    run_case "revert $commit" "$id" "$ob"
  else
    echo "SKIP  revert of $commit does not apply (later commits touch the same lines)"
  fi
done < "$scratch/canaries.txt"
# 2. mutants
for pfile in selftest/mutants/*.patch; do
  [ -e "$pfile" ] || continue
  case "$pfile" in *"$filter"*) ;; *) continue;; esac
  exp=$(grep -m1 '^# expect:' "$pfile" | sed 's/^# expect: *//')
  id=${exp%% *}; what=${exp#* }
  if git -C "$scratch/wt" apply --whitespace=nowarn "$pfile" 2>/dev/null; then
    (cd "$scratch/wt" && go build ./... 2>/dev/null) || { echo "SKIP  $pfile does not build"; git -C "$scratch/wt" checkout -q -- .; continue; }
    run_case "$(basename "$pfile")" "$id" "$what"
  else
    echo "SKIP  $pfile does not apply"
  fi
done
echo "selftest: $n cases, $fail failed"
[ $fail -eq 0 ]
