package props

import (
	"fmt"
	"strings"

	"gocv/smt"
	"gocv/sx"

	"golang.org/x/tools/go/ssa"
)

// matcherPattern is one (opcoder, pattern) entry of a concrete matcher.
type matcherPattern struct {
	Opcoder sx.Val
	Bytes   []byte
	Mask    []byte
}

// matcherPatterns reads the concrete contents of an *opcode.Matcher[T]:
// groups []maskGroup{mask, opcodes []opcode{opcoder, opcode{Bytes,Mask}, masked}}.
func matcherPatterns(p *sx.Path, m sx.Ptr) []matcherPattern {
	st := p.Load(m, "matcher").(*sx.Struct)
	groups := p.SliceElems(st.F[0].(sx.Slice))
	var out []matcherPattern
	for _, g := range groups {
		gs := g.(*sx.Struct)
		for _, o := range p.SliceElems(gs.F[1].(sx.Slice)) {
			os := o.(*sx.Struct)
			op := os.F[1].(*sx.Struct)
			out = append(out, matcherPattern{Opcoder: os.F[0], Bytes: concreteBytes(p.Heap, op.F[0].(sx.Slice)), Mask: concreteBytes(p.Heap, op.F[1].(sx.Slice))})
		}
	}
	return out
}

func patternMatches(p *sx.Path, mp matcherPattern, bs sx.Slice) *smt.Term {
	n, ok := bs.Len.Uint64()
	if !ok {
		panic(sx.Unsupported{Msg: "pattern match on a slice of symbolic length"})
	}
	if uint64(len(mp.Mask)) > n {
		return smt.False
	}
	els := p.SliceElems(bs)
	c := smt.True
	for k := range mp.Mask {
		b := els[k].(*smt.Term)
		c = smt.And(c, smt.Eq(smt.BVAnd(b, smt.BVU(uint64(mp.Mask[k]), 8)), smt.BVU(uint64(mp.Bytes[k]&mp.Mask[k]), 8)))
	}
	return c
}

// patternsOverlap: some byte string matches both patterns.
func patternsOverlap(a, b matcherPattern) bool {
	n := len(a.Mask)
	if len(b.Mask) < n {
		n = len(b.Mask)
	}
	for k := 0; k < n; k++ {
		if (a.Bytes[k]^b.Bytes[k])&a.Mask[k]&b.Mask[k] != 0 {
			return false
		}
	}
	return true
}

// matchByContract is the executable form of the contract of
// (*opcode.Matcher).Match (internal/opcode/contracts_verif.go): the
// precondition (unambiguous pattern set) becomes an obligation of the caller,
// the existential witness k is chosen by forking.
func matchByContract(p *sx.Path, fn *ssa.Function, args []sx.Val, site ssa.Instruction) (sx.Val, bool) {
	if !strings.HasPrefix(sx.FuncName(fn), "(*opcode.Matcher[") || !strings.Contains(sx.FuncName(fn), ").Match") {
		return nil, false
	}
	pats := matcherPatterns(p, args[0].(sx.Ptr))
	bs := args[1].(sx.Slice)
	amb := ""
	for i := range pats {
		for j := i + 1; j < len(pats); j++ {
			if patternsOverlap(pats[i], pats[j]) {
				amb = fmt.Sprintf("patterns %d (bytes %x mask %x) and %d (bytes %x mask %x) share a byte string", i, pats[i].Bytes, pats[i].Mask, j, pats[j].Bytes, pats[j].Mask)
			}
		}
	}
	p.Assert(sx.FuncName(fn)+"/requires/unambiguous", "pre", smt.BoolC(amb == ""), "", "precondition of Match: the pattern set is unambiguous. "+amb)
	for _, mp := range pats {
		c := patternMatches(p, mp, bs)
		if c.IsFalse() {
			continue
		}
		if p.Decide(c) {
			return sx.Tuple{mp.Opcoder, smt.True}, true
		}
	}
	return sx.Tuple{sx.Zero(fn.Signature.Results().At(0).Type()), smt.False}, true
}
