// Package ir gives the expression IR of mltwist/pkg/expr its documented
// meaning (DESIGN §4.1) as bit-vector terms: the denotation of an expression
// tree of concrete shape with symbolic leaves is a closed term of 8·width bits.
package ir

import (
	"fmt"
	"go/types"

	"gocv/smt"
	"gocv/sx"
)

// Types caches the IR's Go types.
type Types struct {
	Const, Binary, Less, RegLoad, MemLoad, RegStore, MemStore types.Type
}

func LoadTypes(P *sx.Program) *Types {
	pk := P.SSA["mltwist/pkg/expr"]
	g := func(n string) types.Type { return pk.Type(n).Type() }
	return &Types{g("Const"), g("Binary"), g("Less"), g("RegLoad"), g("MemLoad"), g("RegStore"), g("MemStore")}
}

// Env interprets the leaves.
type Env struct {
	// Reg returns the value of the low w bytes of register key.
	Reg func(key sx.Str, w int) *smt.Term
	// Mem returns w bytes (little-endian) at the 64-bit address in space key.
	Mem func(key sx.Str, addr *smt.Term, w int) *smt.Term
	// Big operations (width > BigLimit bits) are left uninterpreted.
	BigLimit int
}

// Den computes denotations.
type Den struct {
	T   *Types
	P   *sx.Path
	Env *Env
	// Undefined collects conditions under which the IR gives no meaning
	// (width 0, unknown operator): they become obligations of the caller.
	Problems []string
	cache    map[interface{}]*smt.Term
}

const (
	OpAdd = 1
	OpLsh = 2
	OpRsh = 3
	OpMul = 4
	OpDiv = 5
	OpNand = 6
)

// Width returns the concrete width (bytes) of an expression value.
func (d *Den) Width(v sx.Val) int {
	e := v.(sx.Iface)
	if e.T == nil {
		panic(sx.Unsupported{Msg: "nil expression"})
	}
	s, _ := e.V.(*sx.Struct)
	switch {
	case types.Identical(e.T, d.T.Const):
		sl := s.F[0].(sx.Slice)
		n, ok := sl.Len.Uint64()
		if !ok {
			panic(sx.Unsupported{Msg: "constant of symbolic width"})
		}
		return int(n)
	case types.Identical(e.T, d.T.Binary):
		return d.cw(s.F[3])
	case types.Identical(e.T, d.T.Less):
		return d.cw(s.F[4])
	case types.Identical(e.T, d.T.RegLoad):
		return d.cw(s.F[1])
	case types.Identical(e.T, d.T.MemLoad):
		return d.cw(s.F[2])
	}
	panic(sx.Unsupported{Msg: "not an expression: " + e.T.String()})
}

func (d *Den) cw(v sx.Val) int {
	k, ok := sx.ConstInt(v)
	if !ok {
		panic(sx.Unsupported{Msg: "symbolic width in an expression tree"})
	}
	return int(k)
}

// Expr returns the value of the expression as a term of 8·width bits.
// Width-0 expressions denote the empty value, represented as nil.
func (d *Den) Expr(v sx.Val) *smt.Term {
	e := v.(sx.Iface)
	if e.T == nil {
		panic(sx.Unsupported{Msg: "nil expression"})
	}
	s := e.V.(*sx.Struct)
	switch {
	case types.Identical(e.T, d.T.Const):
		sl := s.F[0].(sx.Slice)
		els := d.P.SliceElems(sl)
		if len(els) == 0 {
			return nil
		}
		var r *smt.Term
		for _, b := range els {
			t := b.(*smt.Term)
			if r == nil {
				r = t
			} else {
				r = smt.Concat(t, r)
			}
		}
		return smt.NormLow(r)
	case types.Identical(e.T, d.T.Binary):
		w := d.cw(s.F[3])
		if w == 0 {
			return nil
		}
		a := d.arg(s.F[1], w)
		b := d.arg(s.F[2], w)
		op, ok := sx.ConstInt(s.F[0])
		if !ok {
			panic(sx.Unsupported{Msg: "symbolic operator"})
		}
		return d.BinOp(int(op), a, b, w)
	case types.Identical(e.T, d.T.Less):
		w := d.cw(s.F[4])
		if w == 0 {
			return nil
		}
		a := d.arg(s.F[0], w)
		b := d.arg(s.F[1], w)
		t := d.arg(s.F[2], w)
		f := d.arg(s.F[3], w)
		return smt.Ite(smt.BVUlt(a, b), t, f)
	case types.Identical(e.T, d.T.RegLoad):
		w := d.cw(s.F[1])
		if w == 0 {
			return nil
		}
		return d.Env.Reg(s.F[0].(sx.Str), w)
	case types.Identical(e.T, d.T.MemLoad):
		w := d.cw(s.F[2])
		if w == 0 {
			return nil
		}
		addr := d.Addr(s.F[1])
		return d.Env.Mem(s.F[0].(sx.Str), addr, w)
	}
	panic(sx.Unsupported{Msg: "not an expression: " + e.T.String()})
}

// Addr is the 64-bit address denoted by an address expression (its own
// width, zero-extended or truncated to 64 bits).
func (d *Den) Addr(v sx.Val) *smt.Term {
	t := d.Expr(v)
	if t == nil {
		return smt.BVU(0, 64)
	}
	return smt.Resize(t, 64)
}

// arg evaluates an operand and adapts it to w bytes.
func (d *Den) arg(v sx.Val, w int) *smt.Term {
	t := d.Expr(v)
	if t == nil {
		return smt.BVU(0, 8*w)
	}
	return smt.Resize(t, 8*w)
}

// BinOp is the documented meaning of the six operators at width w bytes.
func (d *Den) BinOp(op int, a, b *smt.Term, w int) *smt.Term {
	bits := 8 * w
	big := d.Env != nil && d.Env.BigLimit > 0 && bits > d.Env.BigLimit
	switch op {
	case OpAdd:
		return smt.BVAdd(a, b)
	case OpLsh:
		return smt.BVShl(a, b)
	case OpRsh:
		return smt.BVLshr(a, b)
	case OpMul:
		if big && !a.IsConst() && !b.IsConst() {
			x, y := a, b
			if x.ID > y.ID {
				x, y = y, x
			}
			return smt.AppC(fmt.Sprintf("umul%d", bits), smt.BV(bits), x, y)
		}
		return smt.BVMul(a, b)
	case OpDiv:
		if big && !b.IsConst() {
			q := smt.App(fmt.Sprintf("udiv%d", bits), smt.BV(bits), a, b)
			return smt.Ite(smt.Eq(b, smt.BVU(0, bits)), smt.BVNot(smt.BVU(0, bits)), q)
		}
		return smt.BVUDiv(a, b) // all ones on division by zero (SMT-LIB semantics)
	case OpNand:
		return smt.BVNot(smt.BVAnd(a, b))
	}
	panic(sx.Unsupported{Msg: fmt.Sprintf("unknown binary operator %d", op)})
}

// Effect is a decoded side effect.
type Effect struct {
	IsMem bool
	Key   sx.Str
	Val   *smt.Term // value adapted to W bytes
	Addr  *smt.Term // 64-bit, for memory stores
	W     int
}

// Effects decodes a []expr.Effect value (all operands evaluated under Env,
// i.e. in the pre-state).
func (d *Den) Effects(v sx.Val) []Effect {
	var out []Effect
	sl, ok := v.(sx.Slice)
	if !ok {
		panic(sx.Unsupported{Msg: fmt.Sprintf("effects value %T", v)})
	}
	if sl.Obj == 0 {
		return nil
	}
	for _, ev := range d.P.SliceElems(sl) {
		out = append(out, d.Effect(ev))
	}
	return out
}

func (d *Den) Effect(ev sx.Val) Effect {
	e := ev.(sx.Iface)
	if e.T == nil {
		panic(sx.Unsupported{Msg: "nil effect in effect list"})
	}
	s := e.V.(*sx.Struct)
	switch {
	case types.Identical(e.T, d.T.RegStore):
		w := d.cw(s.F[2])
		return Effect{Key: s.F[1].(sx.Str), Val: d.arg(s.F[0], w), W: w}
	case types.Identical(e.T, d.T.MemStore):
		w := d.cw(s.F[3])
		return Effect{IsMem: true, Key: s.F[1].(sx.Str), Val: d.arg(s.F[0], w), Addr: d.Addr(s.F[2]), W: w}
	}
	panic(sx.Unsupported{Msg: "not an effect: " + e.T.String()})
}

// MkRegLoad builds an expr.RegLoad value (used for symbolic leaves).
func (t *Types) MkRegLoad(key string, w int) sx.Val {
	return sx.Iface{T: t.RegLoad, V: &sx.Struct{F: []sx.Val{sx.Str{S: key}, smt.BVU(uint64(w), 8)}}}
}

// MkConst builds an expr.Const from byte terms.
func (t *Types) MkConst(p *sx.Path, bytes []*smt.Term) sx.Val {
	els := make([]sx.Val, len(bytes))
	for i, b := range bytes {
		els[i] = b
	}
	sl := p.NewSlice(types.Typ[types.Uint8], els)
	return sx.Iface{T: t.Const, V: &sx.Struct{F: []sx.Val{sl}}}
}

// SplitBytes splits a term of 8n bits into n byte terms, little-endian.
func SplitBytes(t *smt.Term) []*smt.Term {
	n := t.S.W / 8
	out := make([]*smt.Term, n)
	for i := 0; i < n; i++ {
		out[i] = smt.Extract(t, 8*i+7, 8*i)
	}
	return out
}
